import RomeaModel.Proto
import RomeaModel.Registration
import RomeaModel.RegistrationOracle
open Romea Romea.Proto Romea.Registration

/-!
Driver for C04: `FindRigidTransformationBySVD` at `Float` (binary64) and `Float32` (binary32), Cartesian and
homogeneous points, the four `find` overloads.  The SVD oracle is the Lean Jacobi SVD of
`RomeaModel/RegistrationOracle.lean`.

    svd.pts <src|tgt> <2|3> <f|d> <n> <n·dim coordinates>        -> ok
    svd.find <c|h> corr  <k> <2k indices>                         -> ok <(dim+1)² entries, row major>
    svd.find <c|h> all
    svd.find <c|h> pcorr <k> <2k indices> <scaleSrc> <scaleTgt>
    svd.find <c|h> pall  <scaleSrc> <scaleTgt>
-/

inductive Coords
  | f64 (a : Array (Array Float))
  | f32 (a : Array (Array Float32))

structure St where
  dim : Nat := 0
  src : Option Coords := none
  tgt : Option Coords := none

def chunk {β : Type} (dim : Nat) (l : List β) : Array (Array β) := Id.run do
  let a := l.toArray
  let mut out : Array (Array β) := #[]
  for i in [0:a.size / dim] do
    out := out.push (a.extract (i * dim) (i * dim + dim))
  return out

def parsePairs? (k : Nat) (toks : List String) : Option (List (Nat × Nat)) := do
  if toks.length ≠ 2 * k then none else
  let idx ← parseAll? parseNat? toks
  let a := idx.toArray
  pure ((List.range k).map (fun i => (a.getD (2 * i) 0, a.getD (2 * i + 1) 0)))

inductive Mode | corr | all | pcorr | pall
  deriving DecidableEq

section
variable {α : Type} [Add α] [Sub α] [Mul α] [Div α] [Neg α] [LT α] [DecidableLT α] [NatCast α] [Trans α] [Limits α]

def runFind (d : Nat) (hom : Bool) (mode : Mode) (src tgt : Array (Array α)) (corr : List (Nat × Nat))
    (sS sT : α) : Tab2 (d + 1) (d + 1) α :=
  let svd := Oracle.jacobiSVD d
  if hom then
    let mk (a : Array α) : Tab (d + 1) α := Tab.ofFn (fun i => if i.1 < d then a.getD i.1 zero else one)
    let s := src.map mk
    let t := tgt.map mk
    match mode with
    | .corr => estimate d (d + 1) (Nat.le_succ d) (Nat.le_refl _) svd s t corr
    | .all => estimateAll d (d + 1) (Nat.le_succ d) (Nat.le_refl _) svd s t
    | .pcorr => findPre d (d + 1) (Nat.le_succ d) (Nat.le_refl _) svd s t corr sS sT
    | .pall => findPreAll d (d + 1) (Nat.le_succ d) (Nat.le_refl _) svd s t sS sT
  else
    let mk (a : Array α) : Tab d α := Tab.ofFn (fun i => a.getD i.1 zero)
    let s := src.map mk
    let t := tgt.map mk
    match mode with
    | .corr => estimate d d (Nat.le_refl d) (Nat.le_succ d) svd s t corr
    | .all => estimateAll d d (Nat.le_refl d) (Nat.le_succ d) svd s t
    | .pcorr => findPre d d (Nat.le_refl d) (Nat.le_succ d) svd s t corr sS sT
    | .pall => findPreAll d d (Nat.le_refl d) (Nat.le_succ d) svd s t sS sT

def fmtMat (d : Nat) (fmt : α → String) (H : Tab2 (d + 1) (d + 1) α) : String :=
  unwords ("ok" :: (List.finRange (d + 1)).flatMap (fun i => (List.finRange (d + 1)).map (fun j => fmt (H.toFn i j))))

/-- everything after `svd.find <c|h>` -/
def findOp (d : Nat) (hom : Bool) (src tgt : Array (Array α)) (parse : String → Option α) (fmt : α → String)
    (rest : List String) : String :=
  let inRange (c : List (Nat × Nat)) := c.all (fun x => x.1 < src.size && x.2 < tgt.size)
  match rest with
  | "corr" :: k :: r =>
    match k.toNat? with
    | some k => match parsePairs? k r with
      | some c => if k = 0 ∨ !inRange c then "bad-op" else fmtMat d fmt (runFind d hom .corr src tgt c one one)
      | none => "bad-op"
    | none => "bad-op"
  | ["all"] =>
    if src.size ≠ tgt.size ∨ src.size = 0 then "bad-op" else fmtMat d fmt (runFind d hom .all src tgt [] one one)
  | "pcorr" :: k :: r =>
    match k.toNat? with
    | some k =>
      if r.length ≠ 2 * k + 2 then "bad-op" else
      match parsePairs? k (r.take (2 * k)), (r.drop (2 * k)).map parse with
      | some c, [some sS, some sT] =>
        if k = 0 ∨ !inRange c then "bad-op" else fmtMat d fmt (runFind d hom .pcorr src tgt c sS sT)
      | _, _ => "bad-op"
    | none => "bad-op"
  | ["pall", sS, sT] =>
    match parse sS, parse sT with
    | some sS, some sT =>
      if src.size ≠ tgt.size ∨ src.size = 0 then "bad-op" else fmtMat d fmt (runFind d hom .pall src tgt [] sS sT)
    | _, _ => "bad-op"
  | _ => "bad-op"
end

def step (st : St) (toks : List String) : St × String :=
  match toks with
  | "svd.pts" :: which :: dim :: kind :: n :: coords =>
    match dim.toNat?, n.toNat? with
    | some dim, some n =>
      if (dim ≠ 2 ∧ dim ≠ 3) ∨ coords.length ≠ n * dim ∨ (which ≠ "src" ∧ which ≠ "tgt") then (st, "bad-op") else
      let c? : Option Coords :=
        if kind = "d" then (parseAll? parseF64? coords).map (fun l => Coords.f64 (chunk dim l))
        else if kind = "f" then (parseAll? parseF32? coords).map (fun l => Coords.f32 (chunk dim l))
        else none
      match c? with
      | some c =>
        -- a new dimension invalidates the other set
        let st := if st.dim = dim then st else { dim := dim, src := none, tgt := none }
        if which = "src" then ({ st with src := some c }, "ok") else ({ st with tgt := some c }, "ok")
      | none => (st, "bad-op")
    | _, _ => (st, "bad-op")
  | "svd.find" :: rep :: rest =>
    if rep ≠ "c" ∧ rep ≠ "h" then (st, "bad-op") else
    let hom := rep = "h"
    match st.src, st.tgt with
    | some (.f64 s), some (.f64 t) => (st, findOp st.dim hom s t parseF64? fmtF64 rest)
    | some (.f32 s), some (.f32 t) => (st, findOp st.dim hom s t parseF32? fmtF32 rest)
    | _, _ => (st, "bad-op")
  | _ => (st, "bad-op")

def main : IO Unit := Proto.run ({} : St) step
