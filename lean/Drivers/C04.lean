import RomeaModel.Proto
import RomeaModel.Registration
import RomeaModel.RegistrationOracle
import RomeaModel.RegistrationObjects
open Romea Romea.Proto Romea.Registration

/-!
Driver for C04: `FindRigidTransformationBySVD` at `Float` (binary64) and `Float32` (binary32), Cartesian and
homogeneous points, the four `find` overloads.  The SVD oracle is the Lean Jacobi SVD of
`RomeaModel/RegistrationOracle.lean`.

    svd.pts <src|tgt> <2|3> <f|d> <n> <n·dim coordinates>        -> ok
    svd.find <c|h> corr  <k> <2k indices>                         -> ok <(dim+1)² entries, row major>
    svd.find <c|h> all
    svd.find <c|h> pcorr <k> <2k indices> <scaleSrc> <scaleTgt>
    svd.find <c|h> pall  <scaleSrc> <scaleTgt>

Long-lived objects (`RomeaModel/RegistrationObjects.lean`): numbered slots (0..3) per side and per point type, each
holding one `PreconditionedPointSet` (default constructed at the start of a case), refilled from the CURRENT raw set of
that side; `scorr` / `sall` hand two slots to the preconditioned `find` overloads.

    pps.compute  <src|tgt> <slot> <c|h> <scale>                  -> ok <get().size()> <(dim+1)² entries of the matrix>
    pps.computeT <src|tgt> <slot> <c|h> <scale> <dim translation>
    pps.get      <src|tgt> <slot> <c|h> <index>                  -> ok <POINT_SIZE coordinates of get()[index]>
    svd.find <c|h> scorr <k> <2k indices> <srcSlot> <tgtSlot>
    svd.find <c|h> sall  <srcSlot> <tgtSlot>

`svd.find C|H …` asks the harness to use ONE estimator object for the whole case instead of a fresh one per call;
`FindRigidTransformationBySVD` has no data members, so the model is the same function.
-/

inductive Coords
  | f64 (a : Array (Array Float))
  | f32 (a : Array (Array Float32))

/-- which object: side (source / target family), slot number, and the point type (dimension, homogeneous or not;
    the scalar type is the list the entry is kept in) -/
structure Key where
  side : Bool
  slot : Nat
  d : Nat
  hom : Bool
  deriving DecidableEq

def psize (d : Nat) (hom : Bool) : Nat := if hom then d + 1 else d

theorem le_psize (d : Nat) (hom : Bool) : d ≤ psize d hom := by unfold psize; split <;> omega
theorem psize_le (d : Nat) (hom : Bool) : psize d hom ≤ d + 1 := by unfold psize; split <;> omega

structure Entry (α : Type) where
  key : Key
  obj : PPS key.d (psize key.d key.hom) α

structure St where
  dim : Nat := 0
  src : Option Coords := none
  tgt : Option Coords := none
  objs64 : List (Entry Float) := []
  objs32 : List (Entry Float32) := []

def maxSlots : Nat := 4

def chunk {β : Type} (dim : Nat) (l : List β) : Array (Array β) := Id.run do
  let a := l.toArray
  let mut out : Array (Array β) := #[]
  for i in [0:a.size / dim] do
    out := out.push (a.extract (i * dim) (i * dim + dim))
  return out

def parsePairs? (k : Nat) (toks : List String) : Option (List (Nat × Nat)) := do
  if toks.length ≠ 2 * k then none else
  let idx ← parseAll? parseNat? toks
  let a := idx.toArray
  pure ((List.range k).map (fun i => (a.getD (2 * i) 0, a.getD (2 * i + 1) 0)))

inductive Mode | corr | all | pcorr | pall
  deriving DecidableEq

section
variable {α : Type} [Add α] [Sub α] [Mul α] [Div α] [Neg α] [LT α] [DecidableLT α] [NatCast α] [Trans α] [Limits α]

def runFind (d : Nat) (hom : Bool) (mode : Mode) (src tgt : Array (Array α)) (corr : List (Nat × Nat))
    (sS sT : α) : Tab2 (d + 1) (d + 1) α :=
  let svd := Oracle.jacobiSVD d
  if hom then
    let mk (a : Array α) : Tab (d + 1) α := Tab.ofFn (fun i => if i.1 < d then a.getD i.1 zero else one)
    let s := src.map mk
    let t := tgt.map mk
    match mode with
    | .corr => estimate d (d + 1) (Nat.le_succ d) (Nat.le_refl _) svd s t corr
    | .all => estimateAll d (d + 1) (Nat.le_succ d) (Nat.le_refl _) svd s t
    | .pcorr => findPre d (d + 1) (Nat.le_succ d) (Nat.le_refl _) svd s t corr sS sT
    | .pall => findPreAll d (d + 1) (Nat.le_succ d) (Nat.le_refl _) svd s t sS sT
  else
    let mk (a : Array α) : Tab d α := Tab.ofFn (fun i => a.getD i.1 zero)
    let s := src.map mk
    let t := tgt.map mk
    match mode with
    | .corr => estimate d d (Nat.le_refl d) (Nat.le_succ d) svd s t corr
    | .all => estimateAll d d (Nat.le_refl d) (Nat.le_succ d) svd s t
    | .pcorr => findPre d d (Nat.le_refl d) (Nat.le_succ d) svd s t corr sS sT
    | .pall => findPreAll d d (Nat.le_refl d) (Nat.le_succ d) svd s t sS sT

def fmtMat (d : Nat) (fmt : α → String) (H : Tab2 (d + 1) (d + 1) α) : String :=
  unwords ("ok" :: (List.finRange (d + 1)).flatMap (fun i => (List.finRange (d + 1)).map (fun j => fmt (H.toFn i j))))

/-- the object in a slot; a slot never computed into holds a default-constructed object -/
def lookup : List (Entry α) → (k : Key) → PPS k.d (psize k.d k.hom) α
  | [], _ => PPS.init _ _
  | e :: r, k => if h : e.key = k then h ▸ e.obj else lookup r k

def store (es : List (Entry α)) (k : Key) (o : PPS k.d (psize k.d k.hom) α) : List (Entry α) :=
  ⟨k, o⟩ :: es.filter (fun e => e.key ≠ k)

/-- a raw coordinate row as a point of size `p` (`PointType(x, y[, z])`: homogeneous coordinate 1) -/
def mkPt (d p : Nat) (a : Array α) : Tab p α := Tab.ofFn (fun i => if i.1 < d then a.getD i.1 zero else one)

/-- what `resize` appends: `(0,…,0,1)` for the homogeneous types; indeterminate for the Cartesian ones (zeros here;
    never observable, `C04.compute_forgets`) -/
def fillPt (d p : Nat) : Tab p α := Tab.ofFn (fun i => if i.1 < d then zero else one)

def fmtObj (d p : Nat) (fmt : α → String) (o : PPS d p α) : String :=
  unwords ("ok" :: toString o.points.size ::
    (List.finRange (d + 1)).flatMap (fun i => (List.finRange (d + 1)).map (fun j => fmt (o.mat.toFn i j))))

/-- everything after `pps.compute[T] <side> <slot> <c|h>`: scale and, for `computeT`, the translation -/
def computeOp (es : List (Entry α)) (k : Key) (raw : Array (Array α)) (withT : Bool) (parse : String → Option α)
    (fmt : α → String) (rest : List String) : List (Entry α) × String :=
  let p := psize k.d k.hom
  let input := raw.map (mkPt k.d p)
  match parseAll? parse rest with
  | some (scale :: tr) =>
    if withT then
      if tr.length ≠ k.d then (es, "bad-op") else
      let t : Tab k.d α := Tab.ofFn (fun i => tr.toArray.getD i.1 zero)
      let o := (lookup es k).computeT (fillPt k.d p) input scale t
      (store es k o, fmtObj k.d p fmt o)
    else
      if tr.length ≠ 0 then (es, "bad-op") else
      let o := (lookup es k).compute (fillPt k.d p) input scale
      (store es k o, fmtObj k.d p fmt o)
  | _ => (es, "bad-op")

def getOp (es : List (Entry α)) (k : Key) (fmt : α → String) (idx : Nat) : String :=
  let o := lookup es k
  if h : idx < o.points.size then
    let v := o.points[idx]
    unwords ("ok" :: (List.finRange (psize k.d k.hom)).map (fun i => fmt (v.get i)))
  else "bad-op"

/-- `find` on two slots (`corr = none`: the overload without a correspondence list) -/
def slotFind (d : Nat) (hom : Bool) (es : List (Entry α)) (sS sT : Nat) (corr : Option (List (Nat × Nat)))
    (fmt : α → String) : String :=
  if sS ≥ maxSlots ∨ sT ≥ maxSlots then "bad-op" else
  let S := lookup es ⟨true, sS, d, hom⟩
  let T := lookup es ⟨false, sT, d, hom⟩
  let svd := Oracle.jacobiSVD d
  match corr with
  | some c =>
    if c.isEmpty ∨ !(c.all (fun x => x.1 < S.points.size && x.2 < T.points.size)) then "bad-op" else
    fmtMat d fmt (findObj d (psize d hom) (le_psize d hom) (psize_le d hom) svd S T c)
  | none =>
    if S.points.size ≠ T.points.size ∨ S.points.size = 0 then "bad-op" else
    fmtMat d fmt (findObjAll d (psize d hom) (le_psize d hom) (psize_le d hom) svd S T)


/-- everything after `svd.find <c|h>` -/
def findOp (d : Nat) (hom : Bool) (src tgt : Array (Array α)) (parse : String → Option α) (fmt : α → String)
    (es : List (Entry α)) (rest : List String) : String :=
  let inRange (c : List (Nat × Nat)) := c.all (fun x => x.1 < src.size && x.2 < tgt.size)
  match rest with
  | "corr" :: k :: r =>
    match k.toNat? with
    | some k => match parsePairs? k r with
      | some c => if k = 0 ∨ !inRange c then "bad-op" else fmtMat d fmt (runFind d hom .corr src tgt c one one)
      | none => "bad-op"
    | none => "bad-op"
  | ["all"] =>
    if src.size ≠ tgt.size ∨ src.size = 0 then "bad-op" else fmtMat d fmt (runFind d hom .all src tgt [] one one)
  | "pcorr" :: k :: r =>
    match k.toNat? with
    | some k =>
      if r.length ≠ 2 * k + 2 then "bad-op" else
      match parsePairs? k (r.take (2 * k)), (r.drop (2 * k)).map parse with
      | some c, [some sS, some sT] =>
        if k = 0 ∨ !inRange c then "bad-op" else fmtMat d fmt (runFind d hom .pcorr src tgt c sS sT)
      | _, _ => "bad-op"
    | none => "bad-op"
  | ["sall", sS, sT] =>
    match sS.toNat?, sT.toNat? with
    | some sS, some sT => slotFind d hom es sS sT none fmt
    | _, _ => "bad-op"
  | "scorr" :: k :: r =>
    match k.toNat? with
    | some k =>
      if r.length ≠ 2 * k + 2 then "bad-op" else
      match parsePairs? k (r.take (2 * k)), (r.drop (2 * k)).map String.toNat? with
      | some c, [some sS, some sT] => if k = 0 then "bad-op" else slotFind d hom es sS sT (some c) fmt
      | _, _ => "bad-op"
    | none => "bad-op"
  | ["pall", sS, sT] =>
    match parse sS, parse sT with
    | some sS, some sT =>
      if src.size ≠ tgt.size ∨ src.size = 0 then "bad-op" else fmtMat d fmt (runFind d hom .pall src tgt [] sS sT)
    | _, _ => "bad-op"
  | _ => "bad-op"
end

def step (st : St) (toks : List String) : St × String :=
  match toks with
  | "svd.pts" :: which :: dim :: kind :: n :: coords =>
    match dim.toNat?, n.toNat? with
    | some dim, some n =>
      if (dim ≠ 2 ∧ dim ≠ 3) ∨ coords.length ≠ n * dim ∨ (which ≠ "src" ∧ which ≠ "tgt") then (st, "bad-op") else
      let c? : Option Coords :=
        if kind = "d" then (parseAll? parseF64? coords).map (fun l => Coords.f64 (chunk dim l))
        else if kind = "f" then (parseAll? parseF32? coords).map (fun l => Coords.f32 (chunk dim l))
        else none
      match c? with
      | some c =>
        -- a new dimension invalidates the other set
        let st := if st.dim = dim then st else { st with dim := dim, src := none, tgt := none }
        if which = "src" then ({ st with src := some c }, "ok") else ({ st with tgt := some c }, "ok")
      | none => (st, "bad-op")
    | _, _ => (st, "bad-op")
  | "svd.find" :: rep :: rest =>
    -- `C` / `H`: the harness reuses one estimator object; the estimator has no state, the model is the same
    if rep ≠ "c" ∧ rep ≠ "h" ∧ rep ≠ "C" ∧ rep ≠ "H" then (st, "bad-op") else
    let hom := rep = "h" ∨ rep = "H"
    match st.src, st.tgt with
    | some (.f64 s), some (.f64 t) => (st, findOp st.dim hom s t parseF64? fmtF64 st.objs64 rest)
    | some (.f32 s), some (.f32 t) => (st, findOp st.dim hom s t parseF32? fmtF32 st.objs32 rest)
    | _, _ => (st, "bad-op")
  | op :: side :: slot :: rep :: rest =>
    if (op ≠ "pps.compute" ∧ op ≠ "pps.computeT" ∧ op ≠ "pps.get") ∨ (side ≠ "src" ∧ side ≠ "tgt") ∨
        (rep ≠ "c" ∧ rep ≠ "h") then (st, "bad-op") else
    match slot.toNat? with
    | none => (st, "bad-op")
    | some slot =>
      if slot ≥ maxSlots then (st, "bad-op") else
      let k : Key := ⟨side = "src", slot, st.dim, rep = "h"⟩
      -- the raw set of that side gives the input and the scalar type
      match (if side = "src" then st.src else st.tgt) with
      | some (.f64 raw) =>
        if op = "pps.get" then
          match rest with
          | [i] => match i.toNat? with
            | some i => (st, getOp st.objs64 k fmtF64 i)
            | none => (st, "bad-op")
          | _ => (st, "bad-op")
        else
          let (es, out) := computeOp st.objs64 k raw (op = "pps.computeT") parseF64? fmtF64 rest
          ({ st with objs64 := es }, out)
      | some (.f32 raw) =>
        if op = "pps.get" then
          match rest with
          | [i] => match i.toNat? with
            | some i => (st, getOp st.objs32 k fmtF32 i)
            | none => (st, "bad-op")
          | _ => (st, "bad-op")
        else
          let (es, out) := computeOp st.objs32 k raw (op = "pps.computeT") parseF32? fmtF32 rest
          ({ st with objs32 := es }, out)
      | none => (st, "bad-op")
  | _ => (st, "bad-op")

def main : IO Unit := Proto.run ({} : St) step
