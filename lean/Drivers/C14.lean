import RomeaModel.Proto
import RomeaModel.RayCast
open Romea Romea.Proto Romea.RayCast

/-! Driver for C14: `RayCasting<float|double, 2|3>` on its `GridIndexMapping`, one caster per case.

    ray.new <f|d> <dim> lo… hi… r      → n N… c first/last centre per axis
    ray.origin p…                      → o idx…                      (setOriginPoint)
    ray.end p…                         → e idx… n <cells>            (setEndPoint + computeRayNumberOfCells)
    ray.ncells                         → n <cells>
    ray.cast | ray.castto e… | ray.castoe o… e…   → o <origin cell> e <end cell> c <len> i:j[:k] …
    ray.cur                            → cur := origin indexes (the caller-owned vector `next` works on)
    ray.next                           → next(cur), prints cur

  Points outside the extent, a caster whose origin cell is outside the centre table, non-positive
  resolutions and absurd sizes are `bad-op` on both sides (undefined behaviour in the C++). -/

structure Sess (d : Nat) (α : Type) where
  lo : Vec d α
  hi : Vec d α
  G : Grid d α
  s : State d α
  cur : Vec d Int

structure NumIO (α : Type) where
  parse : String → Option α
  fmt : α → String

section
variable {d : Nat} {α : Type} [Add α] [Sub α] [Mul α] [Div α] [LT α] [DecidableLT α] [LE α] [DecidableLE α]
  [NatCast α] [IntCast α] [OfScientific α] [Trans α] [Trunc α] [Limits α]

def parseVec (io : NumIO α) (d : Nat) (toks : List String) : Option (Vec d α) :=
  match toks.mapM io.parse with
  | some l => if h : l.toArray.size = d then some ⟨l.toArray, h⟩ else none
  | none => none

def fmtCell (c : Vec d Int) : String := ":".intercalate (c.toList.map toString)
def fmtIdx (c : Vec d Int) : List String := c.toList.map toString
def fmtChain (s : State d α) (l : List (Vec d Int)) : String :=
  unwords (["o", fmtCell s.oIdx, "e", fmtCell s.eIdx, "c", toString l.length] ++ l.map fmtCell)

def inside (x : Sess d α) (p : Vec d α) : Bool :=
  (List.finRange d).all fun i => decide (x.lo.at i ≤ p.at i) && decide (p.at i ≤ x.hi.at i)

def newSess (io : NumIO α) (toks : List String) : Option (Sess d α × String) := do
  if toks.length ≠ 2 * d + 1 then none
  let lo ← parseVec io d (toks.take d)
  let hi ← parseVec io d ((toks.drop d).take d)
  let r ← io.parse (toks.getD (2 * d) "")
  let big : α := ((1000000 : Nat) : α)
  let zero : α := ((0 : Nat) : α)
  if ¬ (zero < r ∧ r ≤ big) then none
  let okAxis := (List.finRange d).all fun i =>
    decide (zero - big ≤ lo.at i) && decide (lo.at i ≤ hi.at i) && decide (hi.at i ≤ big) &&
    decide ((hi.at i - lo.at i) / r ≤ ((100000 : Nat) : α))
  if ¬ okAxis then none
  let G : Grid d α := mkGrid lo hi r
  let cs := (List.finRange d).flatMap fun i => [io.fmt (centre1 G i 0), io.fmt (centre1 G i (G.n.at i - 1))]
  pure ({ lo := lo, hi := hi, G := G, s := init, cur := build fun _ => 0 },
        unwords (["n"] ++ fmtIdx G.n ++ ["c"] ++ cs))

def handle (io : NumIO α) (sp : Spec d α) (x : Sess d α) (toks : List String) : Option (Sess d α × String) :=
  match toks with
  | "ray.origin" :: ps => do
    let p ← parseVec io d ps
    if ¬ inside x p then none
    let s := setOrigin x.G x.s p
    pure ({ x with s := s }, unwords ("o" :: fmtIdx s.oIdx))
  | "ray.end" :: ps => do
    let p ← parseVec io d ps
    if ¬ inside x p ∨ ¬ inGrid x.G x.s.oIdx then none
    let s := setEnd sp x.G x.s p
    pure ({ x with s := s }, unwords ("e" :: fmtIdx s.eIdx ++ ["n", toString (numCells s)]))
  | ["ray.ncells"] => pure (x, unwords ["n", toString (numCells x.s)])
  | ["ray.cast"] =>
    let r := cast sp x.s
    pure ({ x with s := r.1 }, fmtChain r.1 r.2)
  | "ray.castto" :: ps => do
    let p ← parseVec io d ps
    if ¬ inside x p ∨ ¬ inGrid x.G x.s.oIdx then none
    let r := castTo sp x.G x.s p
    pure ({ x with s := r.1 }, fmtChain r.1 r.2)
  | "ray.castoe" :: ps => do
    if ps.length ≠ 2 * d then none
    let o ← parseVec io d (ps.take d)
    let e ← parseVec io d (ps.drop d)
    if ¬ inside x o ∨ ¬ inside x e ∨ ¬ inGrid x.G (cellIndexes x.G o) then none
    let r := castOE sp x.G x.s o e
    pure ({ x with s := r.1 }, fmtChain r.1 r.2)
  | ["ray.cur"] => pure ({ x with cur := x.s.oIdx }, unwords ("cur" :: fmtIdx x.s.oIdx))
  | ["ray.next"] =>
    let r := next sp x.s x.cur
    pure ({ x with s := r.1, cur := r.2 }, unwords ("cur" :: fmtIdx r.2))
  | _ => none
end

inductive Any
  | none
  | f2 (x : Sess 2 Float32) | f3 (x : Sess 3 Float32)
  | d2 (x : Sess 2 Float) | d3 (x : Sess 3 Float)

def ioD : NumIO Float := ⟨parseF64?, fmtF64⟩
def ioF : NumIO Float32 := ⟨parseF32?, fmtF32⟩

def lift {σ : Type} (st : Any) (mk : σ → Any) (r : Option (σ × String)) : Any × String :=
  match r with
  | some (x, o) => (mk x, o)
  | none => (st, "bad-op")

def step (st : Any) (toks : List String) : Any × String :=
  match toks with
  | "ray.new" :: t :: dim :: rest =>
    match t, dim with
    | "f", "2" => lift st Any.f2 (newSess ioF rest)
    | "f", "3" => lift st Any.f3 (newSess ioF rest)
    | "d", "2" => lift st Any.d2 (newSess ioD rest)
    | "d", "3" => lift st Any.d3 (newSess ioD rest)
    | _, _ => (st, "bad-op")
  | _ =>
    match st with
    | .none => (st, "bad-op")
    | .f2 x => lift st Any.f2 (handle ioF spec2 x toks)
    | .f3 x => lift st Any.f3 (handle ioF spec3f x toks)
    | .d2 x => lift st Any.d2 (handle ioD spec2 x toks)
    | .d3 x => lift st Any.d3 (handle ioD spec3d x toks)

def main : IO Unit := Proto.run Any.none step
