import RomeaModel.Proto
import RomeaModel.Scalar
import RomeaModel.LeastSquares
import RomeaModel.LeastSquaresOracles
open Romea Romea.Proto Romea.LeastSquares

/-! Driver for C07: the `LeastSquares<double>` / `LeastSquares<float>` state machine at `Float` / `Float32`.

    ls.new d|f [est [n]]     constructors                              -> ok
    ls.est e                 setEstimateSize                           -> ok
    ls.size n                setDataSize                               -> grew 0|1
    ls.row i v_0..v_{e-1} y  J(i,c) = v_c (c < est), Y(i) = y          -> ok
    ls.w i w                 W(i) = w                                  -> ok
    ls.rowk i v.. y | ls.wk i w   the same caller writes, made through references to `J_` / `Y_` / `W_` that the
                             caller obtained ONCE (right after construction) and kept, instead of a new
                             `getJ()` / `getY()` / `getW()` call per line.  In `LeastSquares.cpp` the non-const
                             accessors only return the member, so the two ways of writing are the same
                             transition (`writeRow` / `setW`) of the model; the harness really drives them
                             differently, so an accessor that starts to DO something shows up in stage B / C.
    ls.pre A(e*e) b(e)       setPreconditionner(A, b)                  -> ok
    ls.pre1 A(e*e)           setPreconditionner(A)                     -> ok
    ls.svd | ls.chol | ls.wls                                          -> x v_0..v_{e-1}
    ls.cov var               computeEstimateCovariance                 -> P e*e values (row-major)
    ls.peek i                J(i,0..est-1) Y(i) W(i)                   -> row ...

  Lines the C++ could only answer with undefined behaviour (index outside the buffers, `est = 0`) are `bad-op` on both
  sides.  (Since the repair of `setEstimateSize` the design matrix always has `est` columns once rows are allocated.) -/

class Wire (α : Type) where
  parse? : String → Option α
  fmt : α → String
  nan : α

instance : Wire Float := ⟨parseF64?, fmtF64, 0.0 / 0.0⟩
instance : Wire Float32 := ⟨parseF32?, fmtF32, 0.0 / 0.0⟩

section
variable {α : Type} [NatCast α] [Add α] [Sub α] [Mul α] [Div α] [Neg α] [LT α] [DecidableLT α] [Trans α]
  [Inhabited α] [Limits α] [Wire α]

def fmtVec (tag : String) (v : Vec α) : String := unwords (tag :: v.toList.map Wire.fmt)
def fmtMat (tag : String) (m : Mat α) : String := unwords (tag :: (m.toList.map fun r => r.toList.map Wire.fmt).flatten)

/-- the accesses of an estimate / peek stay inside the buffers -/
def shapeOk (s : State α) : Bool := 1 ≤ s.est && s.dataSize ≤ s.Y.size

/-- a caller write of one row (`ls.row`: through fresh accessor calls, `ls.rowk`: through kept references) -/
def rowG (s : State α) (i : String) (rest : List String) : State α × String :=
  match i.toNat?, parseAll? (Wire.parse? (α := α)) rest with
  | some i, some vals =>
    if s.est = 0 ∨ vals.length ≠ s.est + 1 ∨ i ≥ s.Y.size then (s, "bad-op") else
    (writeRow s i (vals.take s.est).toArray (vals.getD s.est zero), "ok")
  | _, _ => (s, "bad-op")

/-- a caller write of one weight (`ls.w` / `ls.wk`) -/
def wG (s : State α) (i w : String) : State α × String :=
  match i.toNat?, Wire.parse? (α := α) w with
  | some i, some w => if i ≥ s.W.size then (s, "bad-op") else (setW s i w, "ok")
  | _, _ => (s, "bad-op")

def stepG (s : State α) (toks : List String) : State α × String :=
  match toks with
  | ["ls.est", e] =>
    match e.toNat? with
    | some e => if 1 ≤ e ∧ e ≤ 64 then (setEstimateSize s e (fun _ _ => Wire.nan), "ok") else (s, "bad-op")
    | none => (s, "bad-op")
  | ["ls.size", n] =>
    match n.toNat? with
    | some n =>
      if s.est = 0 ∨ n > 100000 then (s, "bad-op") else
      let r := setDataSize s n (fun _ _ => Wire.nan) (fun _ => Wire.nan)
      (r.1, "grew " ++ fmtBool r.2)
    | none => (s, "bad-op")
  | "ls.row" :: i :: rest => rowG s i rest
  | "ls.rowk" :: i :: rest => rowG s i rest
  | ["ls.w", i, w] => wG s i w
  | ["ls.wk", i, w] => wG s i w
  | "ls.pre" :: rest =>
    match parseAll? (Wire.parse? (α := α)) rest with
    | some vals =>
      let e := s.est
      if e = 0 ∨ vals.length ≠ e * e + e then (s, "bad-op") else
      let v := vals.toArray
      (setPreconditioner s (Mat.tab e e fun i j => v.getD (i * e + j) zero) (Vec.tab e fun i => v.getD (e * e + i) zero), "ok")
    | none => (s, "bad-op")
  | "ls.pre1" :: rest =>
    match parseAll? (Wire.parse? (α := α)) rest with
    | some vals =>
      let e := s.est
      if e = 0 ∨ vals.length ≠ e * e then (s, "bad-op") else
      let v := vals.toArray
      (setPreconditioner s (Mat.tab e e fun i j => v.getD (i * e + j) zero) (Vec.tab e fun _ => zero), "ok")
    | none => (s, "bad-op")
  | ["ls.svd"] =>
    if !shapeOk s then (s, "bad-op") else let r := estimateSVD execEnv s; (r.1, fmtVec "x" r.2)
  | ["ls.chol"] =>
    if !shapeOk s then (s, "bad-op") else let r := estimateCholesky execEnv s; (r.1, fmtVec "x" r.2)
  | ["ls.wls"] =>
    if !shapeOk s then (s, "bad-op") else let r := weightedEstimate execEnv s; (r.1, fmtVec "x" r.2)
  | ["ls.cov", v] =>
    match Wire.parse? (α := α) v with
    | some v => if s.est = 0 then (s, "bad-op") else (s, fmtMat "P" (covariance s v))
    | none => (s, "bad-op")
  | ["ls.peek", i] =>
    match i.toNat? with
    | some i =>
      if s.est = 0 ∨ i ≥ s.Y.size then (s, "bad-op") else
      (s, unwords ("row" :: ((List.range s.est).map fun c => Wire.fmt (s.J.get i c)) ++ [Wire.fmt (s.Y.get i), Wire.fmt (s.W.get i)]))
    | none => (s, "bad-op")
  | _ => (s, "bad-op")

def newG (rest : List String) : Option (State α) :=
  match rest with
  | [] => some State.default
  | [e] => e.toNat?.bind fun e => if 1 ≤ e ∧ e ≤ 64 then some (State.ofEst e) else none
  | [e, n] => e.toNat?.bind fun e => n.toNat?.bind fun n =>
      if 1 ≤ e ∧ e ≤ 64 ∧ n ≤ 100000 then some (State.ofEstData e n) else none
  | _ => none
end

inductive St
  | none
  | d (s : State Float)
  | f (s : State Float32)

def step (st : St) (toks : List String) : St × String :=
  match toks with
  | "ls.new" :: "d" :: rest => match newG (α := Float) rest with
    | some s => (.d s, "ok")
    | none => (st, "bad-op")
  | "ls.new" :: "f" :: rest => match newG (α := Float32) rest with
    | some s => (.f s, "ok")
    | none => (st, "bad-op")
  | _ =>
    match st with
    | .none => (st, "bad-op")
    | .d s => let r := stepG s toks; (.d r.1, r.2)
    | .f s => let r := stepG s toks; (.f r.1, r.2)

def main : IO Unit := Proto.run St.none step
