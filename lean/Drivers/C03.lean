import RomeaModel.Proto
import RomeaModel.Lambert
open Romea Romea.Proto Romea.Lambert

/-! Driver for C03: the Lambert model at `Float` (binary64).

    lam.secant  a b lon0 lat0 lat1 lat2 x0 y0   -> p lon0 n c xs ys e     (and the converter is stored)
    lam.tangent a b lat0 lon0 k0 x0 y0          -> p lon0 n c xs ys e     (and the converter is stored)
    lam.direct  lon0 n c xs ys e                -> ok                     (six-argument constructor)
    lam.fwd lat lon                             -> xy x y
    lam.inv x y                                 -> ll lat lon | diverged
    lam.rt lat lon                              -> rt x y lat' lon' | diverged   (toWGS84 (toLambert .))
    lam.jac lat lon h                           -> jac + 16 numbers: toLambert at lat±h, lat±2h, lon±h, lon±2h
    lam.isolat lat e                            -> v L
    lam.lat L e                                 -> v lat | diverged
    lam.gn lat a e                              -> v N
-/

/-- far more than the handful of passes the loop needs wherever it terminates at all -/
def fuel : Nat := 1000

structure St where
  cv : Option (Conv Float) := none

def fmtParams (p : Params Float) (e : Float) : String :=
  unwords ["p", fmtF64 p.lon0, fmtF64 p.n, fmtF64 p.c, fmtF64 p.xs, fmtF64 p.ys, fmtF64 e]

def step (st : St) (toks : List String) : St × String :=
  match toks with
  | "lam.secant" :: args =>
    match parseAll? parseF64? args with
    | some [a, b, lon0, lat0, lat1, lat2, x0, y0] =>
      let E := Ellipsoid.make a b
      let p := paramsSecant { lon0 := lon0, lat0 := lat0, lat1 := lat1, lat2 := lat2, x0 := x0, y0 := y0 } E
      ({ cv := some (Conv.ofParams p E.e) }, fmtParams p E.e)
    | _ => (st, "bad-op")
  | "lam.tangent" :: args =>
    match parseAll? parseF64? args with
    | some [a, b, lat0, lon0, k0, x0, y0] =>
      let E := Ellipsoid.make a b
      let p := paramsTangent { lat0 := lat0, lon0 := lon0, k0 := k0, x0 := x0, y0 := y0 } E
      ({ cv := some (Conv.ofParams p E.e) }, fmtParams p E.e)
    | _ => (st, "bad-op")
  | "lam.direct" :: args =>
    match parseAll? parseF64? args with
    | some [lon0, n, c, xs, ys, e] =>
      ({ cv := some { lon0 := lon0, n := n, c := c, xs := xs, ys := ys, e := e } }, "ok")
    | _ => (st, "bad-op")
  | ["lam.fwd", lat, lon] =>
    match st.cv, parseF64? lat, parseF64? lon with
    | some cv, some lat, some lon =>
      let r := toLambert cv lat lon
      (st, unwords ["xy", fmtF64 r.1, fmtF64 r.2])
    | _, _, _ => (st, "bad-op")
  | ["lam.inv", x, y] =>
    match st.cv, parseF64? x, parseF64? y with
    | some cv, some x, some y =>
      match toWGS84 fuel cv x y with
      | some r => (st, unwords ["ll", fmtF64 r.1, fmtF64 r.2])
      | none => (st, "diverged")
    | _, _, _ => (st, "bad-op")
  | ["lam.rt", lat, lon] =>
    match st.cv, parseF64? lat, parseF64? lon with
    | some cv, some lat, some lon =>
      let r := toLambert cv lat lon
      match toWGS84 fuel cv r.1 r.2 with
      | some w => (st, unwords ["rt", fmtF64 r.1, fmtF64 r.2, fmtF64 w.1, fmtF64 w.2])
      | none => (st, "diverged")
    | _, _, _ => (st, "bad-op")
  | ["lam.jac", lat, lon, h] =>
    match st.cv, parseF64? lat, parseF64? lon, parseF64? h with
    | some cv, some lat, some lon, some h =>
      let h2 := 2 * h
      let pts := [(lat + h, lon), (lat - h, lon), (lat + h2, lon), (lat - h2, lon),
                  (lat, lon + h), (lat, lon - h), (lat, lon + h2), (lat, lon - h2)]
      (st, unwords ("jac" :: pts.flatMap (fun p => let r := toLambert cv p.1 p.2; [fmtF64 r.1, fmtF64 r.2])))
    | _, _, _, _ => (st, "bad-op")
  | ["lam.isolat", lat, e] =>
    match parseF64? lat, parseF64? e with
    | some lat, some e => (st, unwords ["v", fmtF64 (isoLat lat e)])
    | _, _ => (st, "bad-op")
  | ["lam.lat", iso, e] =>
    match parseF64? iso, parseF64? e with
    | some iso, some e =>
      match latFromIso fuel iso e with
      | some r => (st, unwords ["v", fmtF64 r])
      | none => (st, "diverged")
    | _, _ => (st, "bad-op")
  | ["lam.gn", lat, a, e] =>
    match parseF64? lat, parseF64? a, parseF64? e with
    | some lat, some a, some e => (st, unwords ["v", fmtF64 (grandeNormale lat a e)])
    | _, _, _ => (st, "bad-op")
  | _ => (st, "bad-op")

def main : IO Unit := Proto.run ({} : St) step
