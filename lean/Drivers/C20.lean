import RomeaModel.Proto
import RomeaModel.BBox
open Romea Romea.Proto Romea.BBox

/-! Driver for C20 (bounding volumes, intervals, point-set extents) at `Float` / `Float32`.
    `T` = `f64 | f32`, `d` = dimension (1 for intervals only, else 2 | 3); vectors are `d` float tokens.

    int.new T d lo hi            -> ok                      current interval
    int.include lo hi            -> lo' hi'                 Interval::include (mutates the current interval)
    int.inside v                 -> 0|1                     Interval::inside
    aabb.ofint T d lo hi         -> c h                     AxisAlignedBoundingBox(interval)   (becomes the current box)
    aabb.new T d c h             -> ok                      AxisAlignedBoundingBox(centre, half extents)
    aabb.toint                   -> lo hi                   toInterval
    aabb.in p                    -> 0|1                     isInside
    obb.new T d c h R(row-major) -> ok                      OrientedBoundingBox(centre, half extents, rotation)
    obb.in p                     -> 0|1                     isInside
    obb.toaabb                   -> c h                     toAxisAlignedBoundingBox
    pre.compute T kind n pts     -> min max mean scale tr   PointSetPreconditioner (kind = c2|c3|h2|h3: cartesian/homogeneous)
    cont.min|cont.max|cont.mean T d container n pts -> v    EigenContainers min / max / mean (container name is ignored by the model)
-/

structure Num (α : Type) where
  parse : String → Option α
  fmt : α → String
  zero : α

def num64 : Num Float := ⟨parseF64?, fmtF64, 0.0⟩
def num32 : Num Float32 := ⟨parseF32?, fmtF32, 0.0⟩

section
variable {α : Type} [Add α] [Sub α] [Mul α] [Div α] [Neg α] [LT α] [LE α] [DecidableLT α] [DecidableLE α]
  [NatCast α] [Trans α] [Limits α]

def vecOf (N : Num α) (n : Nat) (l : List α) : Vec n α :=
  let a := l.toArray
  fun i => a.getD i.val N.zero

def fmtVec (N : Num α) {n : Nat} (v : Vec n α) : List String := (List.finRange n).map (fun i => N.fmt (v i))

/-- split a flat list into `k` vectors of `n` coordinates -/
def chunks (N : Num α) (n : Nat) : Nat → List α → List (Vec n α)
  | 0, _ => []
  | k + 1, l => vecOf N n (l.take n) :: chunks N n k (l.drop n)

/-- state of one scalar type -/
structure Objs (α : Type) where
  dim : Nat := 0
  itv : Option (Interval dim α) := none
  aabb : Option (AABB dim α) := none
  obb : Option (OBB dim α) := none

def parseHead (N : Num α) (d : String) (args : List String) (mult : Nat) (dmin : Nat) : Option (Nat × List α) := do
  let d ← d.toNat?
  if d < dmin ∨ d > 3 ∨ args.length ≠ mult * d then none else
  let v ← parseAll? N.parse args
  pure (d, v)

def sum3Of (is32 : Bool) (d : Nat) : Sum3 := if is32 && d == 3 then .right else .left

def stepT (N : Num α) (is32 : Bool) (s : Objs α) (op : String) (args : List String) : Option (Objs α × String) := do
  match op, args with
  | "int.new", d :: rest =>
    let (d, v) ← parseHead N d rest 2 1
    pure ({ dim := d, itv := some ⟨vecOf N d (v.take d), vecOf N d (v.drop d)⟩ }, "ok")
  | "aabb.ofint", d :: rest =>
    let (d, v) ← parseHead N d rest 2 2
    let b := AABB.ofInterval (⟨vecOf N d (v.take d), vecOf N d (v.drop d)⟩ : Interval d α)
    pure ({ dim := d, aabb := some b }, unwords (fmtVec N b.center ++ fmtVec N b.half))
  | "aabb.new", d :: rest =>
    let (d, v) ← parseHead N d rest 2 2
    pure ({ dim := d, aabb := some ⟨vecOf N d (v.take d), vecOf N d (v.drop d)⟩ }, "ok")
  | "obb.new", d :: rest =>
    let d' ← d.toNat?
    let (d, v) ← parseHead N d rest (2 + d') 2
    let m := (v.drop (2 * d)).toArray
    let R : Mat d α := fun i j => m.getD (i.val * d + j.val) N.zero
    pure ({ dim := d, obb := some ⟨⟨vecOf N d (v.take d), vecOf N d ((v.drop d).take d)⟩, R⟩ }, "ok")
  | "int.include", rest =>
    let I ← s.itv
    if rest.length ≠ 2 * s.dim then none else
    let v ← parseAll? N.parse rest
    let I' := I.include ⟨vecOf N s.dim (v.take s.dim), vecOf N s.dim (v.drop s.dim)⟩
    pure ({ s with itv := some I' }, unwords (fmtVec N I'.lower ++ fmtVec N I'.upper))
  | "int.hullbox", [] =>
    let I ← s.itv
    if s.dim < 2 then none else
    let J := (AABB.ofInterval I).toInterval
    pure (s, unwords (fmtVec N J.lower ++ fmtVec N J.upper))
  | "int.inside", rest =>
    let I ← s.itv
    if rest.length ≠ s.dim then none else
    let v ← parseAll? N.parse rest
    pure (s, fmtBool (I.inside (vecOf N s.dim v)))
  | "aabb.toint", [] =>
    let b ← s.aabb
    let I := b.toInterval
    pure (s, unwords (fmtVec N I.lower ++ fmtVec N I.upper))
  | "aabb.in", rest =>
    let b ← s.aabb
    if rest.length ≠ s.dim then none else
    let v ← parseAll? N.parse rest
    pure (s, fmtBool (b.isInside (vecOf N s.dim v)))
  | "obb.in", rest =>
    let b ← s.obb
    if rest.length ≠ s.dim then none else
    let v ← parseAll? N.parse rest
    pure (s, fmtBool (b.isInside (sum3Of is32 s.dim) (vecOf N s.dim v)))
  | "obb.toaabb", [] =>
    let b ← s.obb
    let a := b.toAABB
    pure (s, unwords (fmtVec N a.center ++ fmtVec N a.half))
  | "pre.compute", kind :: n :: rest =>
    let n ← n.toNat?
    let (cart, hom) ← (match kind with
      | "c2" => some (2, false) | "c3" => some (3, false) | "h2" => some (2, true) | "h3" => some (3, true) | _ => none)
    if n = 0 ∨ rest.length ≠ n * cart then none else
    let v ← parseAll? N.parse rest
    let sz := if hom then cart + 1 else cart
    if hc : cart ≤ sz then
      -- homogeneous points: the constructor appends the coordinate 1
      let pts : List (Vec sz α) := (chunks N cart n v).map (fun p => fun i =>
        if h : i.val < cart then p ⟨i.val, h⟩ else one)
      let r : Precond sz cart α := Precond.compute hc pts
      pure (s, unwords (fmtVec N r.min ++ fmtVec N r.max ++ fmtVec N r.mean ++ [N.fmt r.scale] ++ fmtVec N r.translation))
    else none
  | c, d :: _cont :: n :: rest =>
    let n ← n.toNat?
    let d ← d.toNat?
    if d < 2 ∨ d > 4 ∨ n = 0 ∨ rest.length ≠ n * d then none else
    let v ← parseAll? N.parse rest
    let pts := chunks N d n v
    match c with
    | "cont.min" => pure (s, unwords (fmtVec N (contMin pts)))
    | "cont.max" => pure (s, unwords (fmtVec N (contMax pts)))
    | "cont.mean" => pure (s, unwords (fmtVec N (contMean pts)))
    | _ => none
  | _, _ => none
end

structure St where
  s64 : Objs Float := {}
  s32 : Objs Float32 := {}
  cur32 : Bool := false

def constructors : List String := ["int.new", "aabb.ofint", "aabb.new", "obb.new", "pre.compute", "cont.min", "cont.max", "cont.mean"]

def stateless : List String := ["pre.compute", "cont.min", "cont.max", "cont.mean"]

def step (st : St) (toks : List String) : St × String :=
  match toks with
  | op :: rest =>
    -- constructors and stateless ops name the scalar type; the other ops act on the current objects
    let (is32?, args) : Option Bool × List String :=
      if constructors.contains op then
        match rest with
        | "f64" :: a => (some false, a)
        | "f32" :: a => (some true, a)
        | _ => (none, [])
      else (some st.cur32, rest)
    match is32? with
    | none => (st, "bad-op")
    | some true =>
      match stepT num32 true st.s32 op args with
      | some (s, o) => if stateless.contains op then (st, o) else ({ s64 := {}, s32 := s, cur32 := true }, o)
      | none => (st, "bad-op")
    | some false =>
      match stepT num64 false st.s64 op args with
      | some (s, o) => if stateless.contains op then (st, o) else ({ s64 := s, s32 := {}, cur32 := false }, o)
      | none => (st, "bad-op")
  | [] => (st, "bad-op")

def main : IO Unit := Proto.run ({} : St) step
