import RomeaModel.Proto
import RomeaModel.Checkup
open Romea Romea.Proto Romea.Checkup

/-! Driver for C18: check-ups at `Float` (binary64), status algebra, report append. -/

structure St where
  chk : Option (State Float) := none
  last : Option Float := none       -- last evaluated value (to classify the info entry)

def fmtStatus (s : Status) : String := toString s.toNat

def fmtInfo (st : St) (s : State Float) : String :=
  match s.info, st.last with
  | none, _ => "empty"
  | some v, some l => if v.toBits == l.toBits then "val" else "other"
  | some _, none => "other"

def parseKind? : String → Option Kind
  | "eq" => some .equalTo | "gt" => some .greaterThan | "lt" => some .lowerThan | _ => none

def parseStatus? (s : String) : Option Status := s.toNat?.bind Status.ofNat?

/-- `a:b` pairs -/
def parsePair? (s : String) : Option (Nat × Nat) :=
  match s.splitOn ":" with
  | [a, b] => do pure ((← a.toNat?), (← b.toNat?))
  | _ => none

def parseReport? (toks : List String) : Option (Report × List String) := do
  -- D <n> <status:msg>*n I <m> <key:val>*m
  match toks with
  | "D" :: n :: rest =>
    let n ← n.toNat?
    let ds ← parseAll? parsePair? (rest.take n)
    let ds ← parseAll? (fun (p : Nat × Nat) => (Status.ofNat? p.1).map (·, p.2)) ds
    match rest.drop n with
    | "I" :: m :: rest2 =>
      let m ← m.toNat?
      let kv ← parseAll? parsePair? (rest2.take m)
      if ds.length ≠ n ∨ kv.length ≠ m then none else
      -- build the map by successive `operator[]`-free inserts (harness does the same)
      pure ({ diags := ds, info := kv.foldl insertNew [] }, rest2.drop m)
    | _ => none
  | _ => none

def fmtReport (r : Report) : String :=
  unwords (["D", toString r.diags.length] ++ r.diags.map (fun d => s!"{d.1.toNat}:{d.2}") ++
           ["I", toString r.info.length] ++ r.info.map (fun kv => s!"{kv.1}:{kv.2}"))

def step1 (st : St) (toks : List String) : St × String :=
  match toks with
  | ["chk.new", k, t, e] =>
    match parseKind? k, parseF64? t, parseF64? e with
    | some k, some t, some e => ({ chk := some (init k t e), last := none }, "ok")
    | _, _, _ => (st, "bad-op")
  | ["chk.newrel", lo, hi] =>
    match parseF64? lo, parseF64? hi with
    | some lo, some hi => ({ chk := some (init .reliability lo hi), last := none }, "ok")
    | _, _ => (st, "bad-op")
  | ["chk.eval", v] =>
    match st.chk, parseF64? v with
    | some s, some v =>
      let (s', r) := evaluate s v
      let st' : St := { chk := some s', last := some v }
      (st', unwords ["ret", fmtStatus r, "st", fmtStatus s'.status, "msg", s'.msg.toString, "info", fmtInfo st' s'])
    | _, _ => (st, "bad-op")
  | ["chk.timeout"] =>
    match st.chk with
    | some s => if s.kind == .reliability then (st, "bad-op") else ({ st with chk := some (timeout s) }, "ok")
    | none => (st, "bad-op")
  | ["chk.report"] =>
    match st.chk with
    | some s => (st, unwords ["st", fmtStatus s.status, "msg", s.msg.toString, "info", fmtInfo st s])
    | none => (st, "bad-op")
  | ["st.worse", a, b] =>
    match parseStatus? a, parseStatus? b with
    | some a, some b => (st, fmtStatus (worse a b))
    | _, _ => (st, "bad-op")
  | "st.worst" :: l =>
    match parseAll? parseStatus? l with
    | some l => match worseStatus l with
      | some s => (st, fmtStatus s)
      | none => (st, "bad-op")
    | none => (st, "bad-op")
  | "st.allok" :: l =>
    match parseAll? parseStatus? l with
    | some l => match allOK l with
      | some b => (st, fmtBool b)
      | none => (st, "bad-op")
    | none => (st, "bad-op")
  | "rep.append" :: rest =>
    match parseReport? rest with
    | some (r1, rest2) => match parseReport? rest2 with
      | some (r2, []) => (st, fmtReport (append r1 r2))
      | _ => (st, "bad-op")
    | none => (st, "bad-op")
  | _ => (st, "bad-op")

/-- two independent objects (the harness gives them different names); `sib.chk.*` drives the second one. Check-ups share nothing,
    so the model is simply a pair of states. -/
def step (st : St × St) (toks : List String) : (St × St) × String :=
  match toks with
  | op :: args =>
    if op.startsWith "sib." then
      let op' := (op.drop 4).toString
      if op'.startsWith "chk." then
        let (s2, out) := step1 st.2 (op' :: args)
        ((st.1, s2), out)
      else (st, "bad-op")
    else
      let (s1, out) := step1 st.1 toks
      ((s1, st.2), out)
  | [] => (st, "bad-op")

def main : IO Unit := Proto.run (({} : St), ({} : St)) step
