import RomeaModel.Proto
import RomeaModel.Scalar
import RomeaModel.KdTree
open Romea Romea.Proto Romea.KdTree

/-! Driver for C08: the kd-tree model at `Float` (types `..d`) and `Float32` (types `..f`).

    kd.build T n c…        T ∈ {c2f,c2d,c3f,c3d,h2f,h2d,h3f,h3d}; n·CARTESIAN_DIM coordinates
                           → `ok n DIM leafmax B (low high)*DIM V vind*n T preorder-tree`
    kd.nn c…               → `idx dist`
    kd.knn k c…            → `k (idx dist)*k`
    Homogeneous types get the unit last coordinate appended here (points and queries). -/

structure PointType where
  cdim : Nat          -- CARTESIAN_DIM
  size : Nat          -- POINT_SIZE
  f32 : Bool
  deriving Inhabited

def parseType? : String → Option PointType
  | "c2f" => some ⟨2, 2, true⟩ | "c2d" => some ⟨2, 2, false⟩
  | "c3f" => some ⟨3, 3, true⟩ | "c3d" => some ⟨3, 3, false⟩
  | "h2f" => some ⟨2, 3, true⟩ | "h2d" => some ⟨2, 3, false⟩
  | "h3f" => some ⟨3, 4, true⟩ | "h3d" => some ⟨3, 4, false⟩
  | _ => none

structure St where
  ty : PointType := default
  n : Nat := 0
  data : FloatArray := FloatArray.empty      -- n·size coordinates (binary32 values stored exactly)
  ix64 : Option (Index Float) := none
  ix32 : Option (Index Float32) := none

/-- one scalar token of the stream's width, as a double (exact) -/
def parseScalar? (f32 : Bool) (s : String) : Option Float :=
  if f32 then (parseF32? s).map (·.toFloat) else parseF64? s

/-- `m` cartesian points → flat array with the homogeneous 1 appended where needed -/
def parsePoints? (ty : PointType) (toks : List String) : Option FloatArray := do
  let mut out := FloatArray.emptyWithCapacity (toks.length + toks.length / 2)
  let mut c := 0
  for t in toks do
    let v ← parseScalar? ty.f32 t
    if v.isNaN then none
    out := out.push v
    c := c + 1
    if c == ty.cdim then
      c := 0
      if ty.size > ty.cdim then out := out.push 1.0
  if c ≠ 0 then none
  pure out

def fmtTree {α : Type} (fmt : α → String) : Tree α → Array String → Array String
  | .leaf l r, acc => ((acc.push "L").push (toString l)).push (toString r)
  | .node f lo hi a b, acc =>
      fmtTree fmt b (fmtTree fmt a ((((acc.push "N").push (toString f)).push (fmt lo)).push (fmt hi)))

def fmtIndex {α : Type} (fmt : α → String) (n dim : Nat) (ix : Index α) : String :=
  let acc : Array String := #["ok", toString n, toString dim, toString leafMaxSize, "B"]
  let acc := ix.bbox.foldl (fun a (b : α × α) => (a.push (fmt b.1)).push (fmt b.2)) acc
  let acc := acc.push "V"
  let acc := ix.vind.foldl (fun a v => a.push (toString v)) acc
  let acc := fmtTree fmt ix.root (acc.push "T")
  " ".intercalate acc.toList

def fmtResult {α : Type} (fmt : α → String) (withCount : Bool) (r : List (α × Nat)) : String :=
  let body := r.foldr (fun (x : α × Nat) acc => toString x.2 :: fmt x.1 :: acc) []
  unwords (if withCount then toString r.length :: body else body)

def P64 (data : FloatArray) (size : Nat) : Nat → Nat → Float := fun i j => data.get! (i * size + j)
def P32 (data : FloatArray) (size : Nat) : Nat → Nat → Float32 := fun i j => (data.get! (i * size + j)).toFloat32

def query (st : St) (k : Nat) (withCount : Bool) (qtoks : List String) : String :=
  if qtoks.length ≠ st.ty.cdim ∨ k = 0 ∨ k > st.n then "bad-op" else
  match parsePoints? st.ty qtoks with
  | none => "bad-op"
  | some qa =>
    match st.ix64, st.ix32 with
    | some ix, _ =>
      fmtResult fmtF64 withCount
        (knn (Limits.maxVal : Float) st.ty.size (P64 st.data st.ty.size) ix (fun j => qa.get! j) k)
    | none, some ix =>
      fmtResult fmtF32 withCount
        (knn (Limits.maxVal : Float32) st.ty.size (P32 st.data st.ty.size) ix (fun j => (qa.get! j).toFloat32) k)
    | none, none => "bad-op"

def step (st : St) (toks : List String) : St × String :=
  match toks with
  | "kd.build" :: t :: n :: coords =>
    match parseType? t, n.toNat? with
    | some ty, some n =>
      if n = 0 ∨ coords.length ≠ n * ty.cdim then (st, "bad-op") else
      match parsePoints? ty coords with
      | none => (st, "bad-op")
      | some data =>
        if ty.f32 then
          let (ix, ok) := buildIndex leafMaxSize ty.size (P32 data ty.size) n
          if ok then ({ ty := ty, n := n, data := data, ix32 := some ix }, fmtIndex fmtF32 n ty.size ix)
          else ({}, "diverged")
        else
          let (ix, ok) := buildIndex leafMaxSize ty.size (P64 data ty.size) n
          if ok then ({ ty := ty, n := n, data := data, ix64 := some ix }, fmtIndex fmtF64 n ty.size ix)
          else ({}, "diverged")
    | _, _ => (st, "bad-op")
  | "kd.nn" :: q => (st, query st 1 false q)
  | "kd.knn" :: k :: q =>
    match k.toNat? with
    | some k => (st, query st k true q)
    | none => (st, "bad-op")
  | _ => (st, "bad-op")

def main : IO Unit := Proto.run ({} : St) step
