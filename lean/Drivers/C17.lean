import RomeaModel.Proto
import RomeaModel.Rate
open Romea Romea.Proto Romea.Rate Romea.Checkup

/-! Driver for C17: rate monitor and rate check-ups at `Float`. -/

/-- `1000000000. / (periodsSum_ / static_cast<double>(windowSize_))`, or the stored `0.` -/
def rateVal (W : Nat) : Option Int → Float
  | none => 0.0
  | some s => 1000000000.0 / (Float.ofInt s / Float.ofNat W)

/-- `static_cast<size_t>(2 * expectedRate)` then clamp -/
def windowOfRate (r : Float) : Nat := windowOf (2.0 * r).toUInt64.toNat

structure St where
  mon : Option Mon := none
  cr : Option (CR Float) := none

def fmtCR (c : CR Float) : String :=
  let info := match c.chk.info with
    | none => "info:empty"
    | some v => "info:" ++ fmtF64 v
  unwords ["st", toString c.chk.status.toNat, "msg", c.chk.msg.toString, info]

def step (st : St) (toks : List String) : St × String :=
  match toks with
  | ["rate.new", r] =>
    match parseF64? r with
    | some r => let m := Mon.init (windowOfRate r); ({ mon := some m, cr := none }, s!"W {m.W}")
    | none => (st, "bad-op")
  | ["rate.stamp", t] =>
    match st.mon, parseInt? t with
    | some m, some t => let m' := m.update t; ({ st with mon := some m' }, "rate " ++ fmtF64 (rateVal m'.W m'.rate))
    | _, _ => (st, "bad-op")
  | ["rate.hb", t] =>
    match st.mon, parseInt? t with
    | some m, some t =>
      let (m', to) := m.timeout t
      ({ st with mon := some m' }, unwords ["to", fmtBool to, "rate", fmtF64 (rateVal m'.W m'.rate)])
    | _, _ => (st, "bad-op")
  | ["crate.new", k, r, e] =>
    let kind := match k with | "eq" => some Kind.equalTo | "gt" => some Kind.greaterThan | _ => none
    match kind, parseF64? r, parseF64? e with
    | some k, some r, some e =>
      let c := CR.init k r e (windowOfRate r)
      ({ mon := none, cr := some c }, fmtCR c)
    | _, _, _ => (st, "bad-op")
  | ["crate.stamp", t] =>
    match st.cr, parseInt? t with
    | some c, some t =>
      let (c', r) := c.stamp rateVal t
      ({ st with cr := some c' }, unwords ["ret", toString r.toNat, fmtCR c'])
    | _, _ => (st, "bad-op")
  | ["crate.hb", t] =>
    match st.cr, parseInt? t with
    | some c, some t =>
      let (c', alive) := c.heartbeat t
      ({ st with cr := some c' }, unwords ["alive", fmtBool alive, fmtCR c'])
    | _, _ => (st, "bad-op")
  | _ => (st, "bad-op")

def main : IO Unit := Proto.run ({} : St) step
