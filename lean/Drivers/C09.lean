import RomeaModel.Proto
import RomeaModel.Normals
open Romea Romea.Proto Romea.Normals

/-! Driver for C09: the normal-estimation model at `Float` / `Float32`, with a brute-force k-NN and a cyclic
    Jacobi eigen-solver plugged in for the two oracle parameters.
      nrm.compute T k overload init n coords...   one call, objects built for it (`computeAll`)
      nrm.cloud T n coords...                     the case keeps a point set of type T with a kd-tree built on it
      nrm.est T k                                 the case keeps an estimator of type T with k neighbours
      nrm.use T overload init                     the kept estimator runs on the kept point set (`t` overloads: through
                                                  the kept tree) — `Session.step`, estimator state threaded (`computeS`) -/

section Generic
variable {α : Type} [Add α] [Sub α] [Mul α] [Div α] [Neg α] [LT α] [DecidableLT α] [NatCast α] [Trans α]
  [Inhabited α]

/-- the k-NN oracle of the driver: brute force over all points, in binary64 on the exact values of the stored
    coordinates (for the `float` types too: the conversion is exact; only near-ties could be ordered differently
    from a `float` evaluation, and the check skips neighbourhoods whose k-th / (k+1)-th distances nearly tie).
    Returns the indices of the `k` nearest points of point `i` (itself included), ascending distance. -/
def knnBruteF (dim : Nat) (coords : FloatArray) (n k i : Nat) : List Nat := Id.run do
  let mut bd : FloatArray := FloatArray.emptyWithCapacity k      -- ascending distances
  let mut bi : Array Nat := Array.mkEmpty k
  for j in [0:n] do
    let mut d : Float := 0.0
    for c in [0:dim] do
      let e := coords.get! (j * dim + c) - coords.get! (i * dim + c)
      d := d + e * e
    let sz := bd.size
    if sz < k || d < bd.get! (sz - 1) then
      -- position of the first entry greater than d (insert after equal keys)
      let mut pos := sz
      for t in [0:sz] do
        if pos = sz && d < bd.get! t then pos := t
      if sz < k then
        bd := bd.push 0.0
        bi := bi.push 0
      let last := bd.size - 1
      let mut t := last
      while t > pos do
        bd := bd.set! t (bd.get! (t - 1))
        bi := bi.set! t (bi[t - 1]!)
        t := t - 1
      bd := bd.set! pos d
      bi := bi.set! pos j
  return bi.toList

/-- cyclic Jacobi iteration for a symmetric `n × n` matrix (row-major arrays); returns eigenvalues ascending and the
    matching eigenvectors as columns -/
@[specialize] def jacobi (n : Nat) (a0 : Array (Array α)) : Array α × Array (Array α) := Id.run do
  let two : α := ((2 : Nat) : α)
  let mut a := a0
  let mut v : Array (Array α) := Array.ofFn (n := n) fun i => Array.ofFn (n := n) fun j =>
    if i.val = j.val then Normals.one else Normals.zero
  for _sweep in [0:60] do
    let mut off : α := Normals.zero
    for p in [0:n] do
      for q in [p+1:n] do
        off := off + a[p]![q]! * a[p]![q]!
    -- converged when every off-diagonal entry has been annihilated
    if !(Normals.zero < off) then break
    for p in [0:n] do
      for q in [p+1:n] do
        let apq := a[p]![q]!
        let g := ((100 : Nat) : α) * Trans.abs apq
        let app := Trans.abs (a[p]![p]!)
        let aqq := Trans.abs (a[q]![q]!)
        if !(app < app + g) && !(aqq < aqq + g) then
          -- negligible next to both diagonal entries: set to zero (as in the classical cyclic Jacobi method)
          a := a.set! p (a[p]!.set! q Normals.zero)
          a := a.set! q (a[q]!.set! p Normals.zero)
        else if apq < Normals.zero || Normals.zero < apq then
          let theta := (a[q]![q]! - a[p]![p]!) / (two * apq)
          let t := (if theta < Normals.zero then -Normals.one else Normals.one) /
                   (Trans.abs theta + Trans.sqrt (theta * theta + Normals.one))
          let c := Normals.one / Trans.sqrt (t * t + Normals.one)
          let s := t * c
          -- A ← Jᵀ A J
          for r in [0:n] do
            let arp := a[r]![p]!
            let arq := a[r]![q]!
            a := a.set! r ((a[r]!.set! p (c * arp - s * arq)).set! q (s * arp + c * arq))
          for r in [0:n] do
            let apr := a[p]![r]!
            let aqr := a[q]![r]!
            a := a.set! p (a[p]!.set! r (c * apr - s * aqr))
            a := a.set! q (a[q]!.set! r (s * apr + c * aqr))
          for r in [0:n] do
            let vrp := v[r]![p]!
            let vrq := v[r]![q]!
            v := v.set! r ((v[r]!.set! p (c * vrp - s * vrq)).set! q (s * vrp + c * vrq))
  -- ascending order (selection sort on n ≤ 4 entries)
  let mut order : List Nat := []
  let mut used : Array Bool := Array.replicate n false
  for _ in [0:n] do
    let mut bi := n
    for j in [0:n] do
      if !used[j]! then
        if bi = n then bi := j
        else if a[j]![j]! < a[bi]![bi]! then bi := j
    if bi < n then
      used := used.set! bi true
      order := order ++ [bi]
  let vals := order.toArray.map fun j => a[j]![j]!
  let vecs : Array (Array α) := Array.ofFn (n := n) fun i => order.toArray.map fun j => v[i.val]![j]!
  return (vals, vecs)

@[specialize] def eigOracle (m : Nat) (c : Mat (m + 2) α) : EigSym (m + 2) α :=
  let n := m + 2
  let a : Array (Array α) := Array.ofFn (n := n) fun i => Array.ofFn (n := n) fun j => c i j
  let r := jacobi n a
  { vals := fun i => r.1[i.val]!, vecs := fun i j => r.2[i.val]![j.val]! }

def groups {β : Type} (k : Nat) (l : List β) : List (List β) :=
  if _h : k = 0 ∨ l.length < k then [] else l.take k :: groups k (l.drop k)
termination_by l.length
decreasing_by simp_all; omega

def fmtOuts (m : Nat) (hom : Bool) (ov : Overload) (fmt : α → String) (outs : List (Out (m + 2) α)) : String :=
  let toks := outs.foldl (fun (acc : Array String) o =>
    let acc := (List.finRange (m + 2)).foldl (fun acc i => acc.push (fmt (o.normal i))) acc
    let acc := if hom then acc.push (fmt o.w) else acc
    let acc := if ov.hasCurvature then acc.push (fmt o.curvature) else acc
    if ov.hasReliability then acc.push (fmt o.reliability) else acc) #[]
  unwords (["ok", toString outs.length] ++ toks.toList)

@[specialize] def runCloud (m : Nat) (hom : Bool) (k : Nat) (ov : Overload) (coords : Array (Array α)) (toF : α → Float)
    (fmt : α → String) : String :=
  let pts : Array (Vec (m + 2) α) := coords.map fun c => (fun i => c[i.val]!)
  let flat : FloatArray := coords.foldl (fun acc c => c.foldl (fun acc x => acc.push (toF x)) acc) (FloatArray.emptyWithCapacity (coords.size * (m + 2)))
  -- the kd-tree stores the whole point vector (for homogeneous points the extra coordinate is 1 everywhere and
  -- contributes nothing to a distance)
  let outs := computeAll hom (eigOracle m) (knnBruteF (m + 2) flat coords.size k) pts
  fmtOuts m hom ov fmt outs

/-- per-type state of the driver between ops of one case: the model's `Session` (caller-owned point set + kd-tree,
    estimator object) and the flattened binary64 copy of the point set the brute-force k-NN oracle reads -/
structure Slot (α : Type) (m : Nat) where
  sess : Session (m + 2) α := {}
  flat : FloatArray := FloatArray.empty
  n : Nat := 0

inductive Cmd
  | cloud (n : Nat) (coords : List String)
  | est (k : Nat)
  | use (ov : Overload) (init : String)

/-- `nrm.cloud` / `nrm.est` / `nrm.use` on one slot, through the model's `Session.step` -/
@[specialize] def slotOp (m : Nat) (hom : Bool) (parse : String → Option α) (toF : α → Float) (fmt : α → String)
    (sl : Slot α m) : Cmd → Slot α m × String
  | .cloud n rest =>
    let dim := m + 2
    if n = 0 ∨ rest.length ≠ n * dim then (sl, "bad-op") else
    match parseAll? parse rest with
    | none => (sl, "bad-op")
    | some cs =>
      let coords : Array (Array α) := (groups dim cs).toArray.map List.toArray
      let pts : Array (Vec (m + 2) α) := coords.map fun c => (fun i => c[i.val]!)
      let flat : FloatArray := coords.foldl (fun acc c => c.foldl (fun acc x => acc.push (toF x)) acc)
        (FloatArray.emptyWithCapacity (coords.size * dim))
      let knn : Array (Vec (m + 2) α) → Nat → Nat → List Nat := fun _ _ _ => []
      ({ sess := (sl.sess.step hom (eigOracle m) knn (.setCloud pts)).1, flat := flat, n := n }, "ok " ++ toString n)
  | .est k =>
    if k = 0 then (sl, "bad-op") else
    let knn : Array (Vec (m + 2) α) → Nat → Nat → List Nat := fun _ _ _ => []
    ({ sl with sess := (sl.sess.step hom (eigOracle m) knn (.setEst k)).1 }, "ok")
  | .use ov init =>
    if init ∉ ["default", "zero", "junk"] then (sl, "bad-op") else
    -- the tree of the session is the one built on `sl.flat` (same point set as `sl.sess.cloud`)
    let knn : Array (Vec (m + 2) α) → Nat → Nat → List Nat := fun _ k i => knnBruteF (m + 2) sl.flat sl.n k i
    match sl.sess.step hom (eigOracle m) knn .use with
    | (s', some outs) => ({ sl with sess := s' }, fmtOuts m hom ov fmt outs.toList)
    | (_, none) => (sl, "bad-op")

end Generic

def parseType? : String → Option (Nat × Bool × Bool)   -- m (dim - 2), homogeneous, float
  | "c2d" => some (0, false, false) | "c3d" => some (1, false, false)
  | "h2d" => some (0, true, false) | "h3d" => some (1, true, false)
  | "c2f" => some (0, false, true) | "c3f" => some (1, false, true)
  | "h2f" => some (0, true, true) | "h3f" => some (1, true, true)
  | _ => none

def parseOverload? : String → Option Overload
  | "n" => some .normals | "nt" => some .normalsTree | "c" => some .curv | "ct" => some .curvTree
  | "r" => some .rel | "rt" => some .relTree | _ => none

/-- one slot per point type (index: homogeneous?) -/
structure DrvState where
  d2 : Bool → Slot Float 0 := fun _ => {}
  d3 : Bool → Slot Float 1 := fun _ => {}
  f2 : Bool → Slot Float32 0 := fun _ => {}
  f3 : Bool → Slot Float32 1 := fun _ => {}

def upd {β : Type} (f : Bool → β) (h : Bool) (v : β) : Bool → β := fun b => if b = h then v else f b

def sessionOp (st : DrvState) (ty : String) (cmd : Cmd) : DrvState × String :=
  match parseType? ty with
  | some (0, hom, false) =>
    let r := slotOp 0 hom parseF64? id fmtF64 (st.d2 hom) cmd
    ({ st with d2 := upd st.d2 hom r.1 }, r.2)
  | some (1, hom, false) =>
    let r := slotOp 1 hom parseF64? id fmtF64 (st.d3 hom) cmd
    ({ st with d3 := upd st.d3 hom r.1 }, r.2)
  | some (0, hom, true) =>
    let r := slotOp 0 hom parseF32? Float32.toFloat fmtF32 (st.f2 hom) cmd
    ({ st with f2 := upd st.f2 hom r.1 }, r.2)
  | some (1, hom, true) =>
    let r := slotOp 1 hom parseF32? Float32.toFloat fmtF32 (st.f3 hom) cmd
    ({ st with f3 := upd st.f3 hom r.1 }, r.2)
  | _ => (st, "bad-op")

def step (st : DrvState) (toks : List String) : DrvState × String :=
  match toks with
  | "nrm.cloud" :: ty :: n :: rest =>
    match n.toNat? with
    | some n => sessionOp st ty (.cloud n rest)
    | none => (st, "bad-op")
  | ["nrm.est", ty, k] =>
    match k.toNat? with
    | some k => sessionOp st ty (.est k)
    | none => (st, "bad-op")
  | ["nrm.use", ty, ov, init] =>
    match parseOverload? ov with
    | some ov => sessionOp st ty (.use ov init)
    | none => (st, "bad-op")
  | "nrm.compute" :: ty :: k :: ov :: init :: n :: rest =>
    match parseType? ty, k.toNat?, parseOverload? ov, n.toNat? with
    | some (m, hom, isF), some k, some ov, some n =>
      let dim := m + 2
      if init ∉ ["default", "zero", "junk"] ∨ rest.length ≠ n * dim ∨ n ≤ k ∨ k = 0 then (st, "bad-op") else
      if isF then
        match parseAll? parseF32? rest with
        | some cs =>
          let coords := (groups dim cs).toArray.map List.toArray
          (st, runCloud m hom k ov coords Float32.toFloat fmtF32)
        | none => (st, "bad-op")
      else
        match parseAll? parseF64? rest with
        | some cs =>
          let coords := (groups dim cs).toArray.map List.toArray
          (st, runCloud m hom k ov coords id fmtF64)
        | none => (st, "bad-op")
    | _, _, _, _ => (st, "bad-op")
  | _ => (st, "bad-op")

def main : IO Unit := Proto.run ({} : DrvState) step
