import RomeaModel.Proto
import RomeaModel.ENU
open Romea Romea.Proto Romea.Geodesy Romea.ENU

/-! Driver for C02: one `ENUConverter` state per case, driven through an op sequence at `Float`.
    Vocabulary and output formats: see `harness/c02.cpp`. -/

def FUEL : Nat := 100000

/-- `ecefConverter_()` = `ECEFConverter(EarthEllipsoid::GRS80)` -/
def E0 : Ellipsoid Float := grs80

def fmtVec (v : Vec3 Float) : String := unwords [fmtF64 v.x, fmtF64 v.y, fmtF64 v.z]
def fmtGeo (g : Geo Float) : String := unwords [fmtF64 g.lat, fmtF64 g.lon, fmtF64 g.alt]
def floats? (l : List String) : Option (List Float) := parseAll? parseF64? l

def fmtState (s : State Float) : String :=
  let z := fmtF64 0.0
  unwords [fmtBool s.anchored,
    fmtF64 s.R.m00, fmtF64 s.R.m01, fmtF64 s.R.m02, fmtF64 s.T.x,
    fmtF64 s.R.m10, fmtF64 s.R.m11, fmtF64 s.R.m12, fmtF64 s.T.y,
    fmtF64 s.R.m20, fmtF64 s.R.m21, fmtF64 s.R.m22, fmtF64 s.T.z,
    z, z, z, fmtF64 1.0, fmtGeo s.anchor]

def fmtOut : Out Float → String
  | .unit => "ok"
  | .vec v => fmtVec v
  | .geo (some g) => fmtGeo g
  | .geo none => "diverged"

def parseOp? (name : String) (args : List Float) : Option (Op Float) :=
  match name, args with
  | "enu.anchor", [a, b, c] => some (.setAnchor ⟨a, b, c⟩)
  | "enu.reset", [] => some .reset
  | "enu.toenu_ecef", [a, b, c] => some (.toENUecef ⟨a, b, c⟩)
  | "enu.toenu_geo", [a, b, c] => some (.toENUgeo ⟨a, b, c⟩)
  | "enu.toenu_wgs", [a, b] => some (.toENUwgs a b)
  | "enu.toecef", [a, b, c] => some (.toECEF ⟨a, b, c⟩)
  | "enu.toecef3", [a, b, c] => some (.toECEF ⟨a, b, c⟩)      -- ENUConverter.cpp:88-91 forwards
  | "enu.towgs", [a, b, c] => some (.toWGS84 ⟨a, b, c⟩)
  | "enu.towgs3", [a, b, c] => some (.toWGS84 ⟨a, b, c⟩)      -- ENUConverter.cpp:101-104 forwards
  | _, _ => none

def stepD (st : Option (State Float)) (toks : List String) : Option (State Float) × String :=
  match toks with
  | ["enu.new"] => (some init, "ok")
  | ["enu.newat", a, b, c] =>
    match floats? [a, b, c] with
    | some [a, b, c] => (some (setAnchor E0 init ⟨a, b, c⟩), "ok")     -- ENUConverter.cpp:38-42
    | _ => (st, "bad-op")
  | ["enu.state"] =>
    match st with
    | some s => (st, fmtState s)
    | none => (st, "bad-op")
  -- compositions on the same object (the probe checks that they are the identity to 1 mm)
  | ["enu.rt_ecef", a, b, c] =>          -- toENU(toECEF(v))
    match st, floats? [a, b, c] with
    | some s, some [a, b, c] => (st, fmtVec (toENUv s (toECEFv s ⟨a, b, c⟩)))
    | _, _ => (st, "bad-op")
  | ["enu.rt_inv", a, b, c] =>           -- toECEF(toENU(p))
    match st, floats? [a, b, c] with
    | some s, some [a, b, c] => (st, fmtVec (toECEFv s (toENUv s ⟨a, b, c⟩)))
    | _, _ => (st, "bad-op")
  | ["enu.rt_wgs", a, b, c] =>           -- toENU(toWGS84(v)) through the GeodeticCoordinates overload
    match st, floats? [a, b, c] with
    | some s, some [a, b, c] =>
      match toWGS84v FUEL E0 s ⟨a, b, c⟩ with
      | some g => let r := toENUgeo E0 s g; (some r.1, fmtVec r.2)
      | none => (st, "diverged")
    | _, _ => (st, "bad-op")
  | name :: args =>
    match st, floats? args with
    | some s, some xs =>
      match parseOp? name xs with
      | some op => let r := step FUEL E0 s op; (some r.1, fmtOut r.2)
      | none => (st, "bad-op")
    | _, _ => (st, "bad-op")
  | [] => (st, "bad-op")

def main : IO Unit := Proto.run (none : Option (State Float)) stepD
