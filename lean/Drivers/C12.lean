import RomeaModel.Proto
import RomeaModel.Pose
import RomeaModel.Derivatives
import RomeaModel.Scalar
import RomeaModel.LeastSquares
import RomeaModel.LeastSquaresOracles
open Romea Romea.Proto Romea.Pose Romea.Deriv

/-! Driver for C12: `SmartRotation3D` derivative matrices, `dRTdAngles`, the pose covariance of
    `operator*(Affine3d, Pose3D)`, the least-squares estimate covariance — the model of `RomeaModel/Derivatives.lean` at `Float` (binary64).

    Where the harness prints finite differences of the implementation's own maps, this driver prints the
    model's "true derivative" definitions (`trueDerivs`) resp. the model's pose Jacobian.

    Solver reuse (`lsh.*`): ONE `LeastSquares<double>` object per case, driven through problem sequences — the state
    machine of `RomeaModel/LeastSquares.lean` (the C07 model) with the oracles of `RomeaModel/LeastSquaresOracles.lean`:

      lsh.new e [n]              LeastSquares(e) / LeastSquares(e, n)                         -> ok
      lsh.est e                  setEstimateSize                                              -> ok
      lsh.size n                 setDataSize                                                  -> grew 0|1
      lsh.row i v_0..v_{e-1} y   J(i,c) = v_c (c < est), Y(i) = y                             -> ok
      lsh.w i w                  W(i) = w                                                     -> ok
      lsh.pre a_0.. b_0..        setPreconditionner(diag a, b)                                -> ok
      lsh.svd | lsh.chol | lsh.wls   the three estimators (the estimate is C07's subject)     -> ok
      lsh.cov var                computeEstimateCovariance                                    -> P e*e values (row-major)

    Lines the C++ could only answer with undefined behaviour (index outside the buffers, no object) are `bad-op`. -/

def parseFloats? (l : List String) : Option (Array Float) := (parseAll? parseF64? l).map List.toArray

def vecOf (a : Array Float) (off n : Nat) : Vec n Float := fun i => a[off + i.1]!
def matOf (a : Array Float) (off n m : Nat) : Mat n m Float := fun i j => a[off + i.1 * m + j.1]!

def fmtVec {n : Nat} (v : Vec n Float) : List String := (List.finRange n).map (fun i => fmtF64 (v i))
def fmtMat {n m : Nat} (a : Mat n m Float) : List String :=
  (List.finRange n).flatMap (fun i => (List.finRange m).map (fun j => fmtF64 (a i j)))

/-- Gauss–Jordan inverse with partial pivoting (stand-in for `LDLT::solve(Identity)` / the SVD pseudo-inverse
    on a full-rank normal matrix; results are compared within tolerance) -/
def invFloat {n : Nat} (g : Mat n n Float) : Mat n n Float := Id.run do
  let mut a : Array (Array Float) := Array.ofFn (fun i : Fin n =>
    Array.ofFn (fun j : Fin (2 * n) => if h : j.1 < n then g i ⟨j.1, h⟩ else if j.1 - n == i.1 then 1.0 else 0.0))
  for c in [0:n] do
    let mut p := c
    for r in [c+1:n] do
      if Float.abs (a[r]!)[c]! > Float.abs (a[p]!)[c]! then p := r
    let rowp := a[p]!
    let rowc := a[c]!
    a := (a.set! p rowc).set! c rowp
    let piv := (a[c]!)[c]!
    a := a.set! c ((a[c]!).map (· / piv))
    for r in [0:n] do
      if r != c then
        let f := (a[r]!)[c]!
        let rc := a[c]!
        a := a.set! r ((a[r]!).mapIdx (fun k v => v - f * rc[k]!))
  let res := a
  return fun i j => (res[i.1]!)[n + j.1]!

/-- the solver object of the `lsh.*` ops (`none` until `lsh.new`) -/
abbrev St := Option (LeastSquares.State Float)

def nanF : Float := 0.0 / 0.0

def natIn? (s : String) (lo hi : Nat) : Option Nat := s.toNat?.bind fun v => if lo ≤ v ∧ v ≤ hi then some v else none

/-- `lsh.*` on the object `s` -/
def stepHistory (s : LeastSquares.State Float) (toks : List String) : LeastSquares.State Float × String :=
  match toks with
  | ["lsh.est", e] =>
    match natIn? e 1 8 with
    | some e => (LeastSquares.setEstimateSize s e (fun _ _ => nanF), "ok")
    | none => (s, "bad-op")
  | ["lsh.size", n] =>
    match natIn? n 0 64 with
    | some n => let r := LeastSquares.setDataSize s n (fun _ _ => nanF) (fun _ => nanF); (r.1, "grew " ++ fmtBool r.2)
    | none => (s, "bad-op")
  | "lsh.row" :: i :: rest =>
    match i.toNat?, parseAll? parseF64? rest with
    | some i, some vals =>
      if vals.length ≠ s.est + 1 ∨ i ≥ s.Y.size then (s, "bad-op") else
      (LeastSquares.writeRow s i (vals.take s.est).toArray (vals.getD s.est 0.0), "ok")
    | _, _ => (s, "bad-op")
  | ["lsh.w", i, w] =>
    match i.toNat?, parseF64? w with
    | some i, some w => if i ≥ s.W.size then (s, "bad-op") else (LeastSquares.setW s i w, "ok")
    | _, _ => (s, "bad-op")
  | "lsh.pre" :: rest =>
    match parseAll? parseF64? rest with
    | some vals =>
      let e := s.est
      if vals.length ≠ 2 * e then (s, "bad-op") else
      let v := vals.toArray
      (LeastSquares.setPreconditioner s (LeastSquares.Mat.tab e e fun i j => if i = j then v.getD i 0.0 else 0.0)
        (LeastSquares.Vec.tab e fun i => v.getD (e + i) 0.0), "ok")
    | none => (s, "bad-op")
  | ["lsh.svd"] =>
    if s.dataSize > s.Y.size then (s, "bad-op") else ((LeastSquares.estimateSVD LeastSquares.execEnv s).1, "ok")
  | ["lsh.chol"] =>
    if s.dataSize > s.Y.size then (s, "bad-op") else ((LeastSquares.estimateCholesky LeastSquares.execEnv s).1, "ok")
  | ["lsh.wls"] =>
    if s.dataSize > s.Y.size then (s, "bad-op") else ((LeastSquares.weightedEstimate LeastSquares.execEnv s).1, "ok")
  | ["lsh.cov", v] =>
    match parseF64? v with
    | some v => (s, unwords ("P" :: ((LeastSquares.covariance s v).toList.map fun r => r.toList.map fmtF64).flatten))
    | none => (s, "bad-op")
  | _ => (s, "bad-op")

def step (st : St) (toks : List String) : St × String :=
  match toks with
  | ["lsh.new", e] =>
    match natIn? e 1 8 with
    | some e => (some (LeastSquares.State.ofEst e), "ok")
    | none => (st, "bad-op")
  | ["lsh.new", e, n] =>
    match natIn? e 1 8, natIn? n 0 64 with
    | some e, some n => (some (LeastSquares.State.ofEstData e n), "ok")
    | _, _ => (st, "bad-op")
  | "ls.cov" :: kind :: ns :: ms :: rest =>
    match kind, ns.toNat?, ms.toNat?, parseFloats? rest with
    | k, some n, some m, some a =>
      if (k == "chol" || k == "svd") && 1 ≤ n && n ≤ 8 && n ≤ m && m ≤ 64 && a.size == m * n + m + 2 * n + 1 then
        let J : Mat m n Float := matOf a 0 m n
        let ad : Vec n Float := vecOf a (m * n + m) n
        let A : Mat n n Float := fun i j => if i == j then ad i else 0.0
        let var := a[m * n + m + 2 * n]!
        (st, unwords (fmtMat (lsqCovariance invFloat J A var).get))
      else (st, "bad-op")
    | _, _, _, _ => (st, "bad-op")
  | op :: args =>
    if op.startsWith "lsh." then
      match st with
      | some s => let r := stepHistory s toks; (some r.1, r.2)
      | none => (st, "bad-op")
    else
    match parseFloats? args with
    | none => (st, "bad-op")
    | some a =>
      match op, a.size with
      | "smart.d", 3 =>
        let s := smartInit (vecOf a 0 3)
        let (tx, ty, tz) := trueDerivs (vecOf a 0 3)
        (st, unwords (fmtMat s.R.get ++ fmtMat s.dRdX.get ++ fmtMat s.dRdY.get ++ fmtMat s.dRdZ.get ++ ["|"] ++
                      fmtMat tx.get ++ fmtMat ty.get ++ fmtMat tz.get))
      | "smart.d2", 6 =>
        -- constructed with the first triple, re-initialised with the second: no state survives
        let s := smartInit (vecOf a 3 3)
        (st, unwords (fmtMat s.R.get ++ fmtMat s.dRdX.get ++ fmtMat s.dRdY.get ++ fmtMat s.dRdZ.get))
      | "smart.hist", n =>
        -- a history of constructor / init calls (both overload families) on one object: groups (kind a b c); the matrices are a
        -- function of the LAST angle triple only (`smartInit`), whatever came before
        if n < 4 || n % 4 != 0 then (st, "bad-op") else
        let kinds := (List.range (n / 4)).map (fun g => a[4 * g]!)
        if !(kinds.drop 1).all (fun k => k == 2.0 || k == 3.0) || !(kinds.head? matches some _) then (st, "bad-op") else
        if !(kinds.take 1).all (fun k => k == 0.0 || k == 1.0 || k == 2.0 || k == 3.0) then (st, "bad-op") else
        let s := smartInit (vecOf a (n - 3) 3)
        (st, unwords (fmtMat s.R.get ++ fmtMat s.dRdX.get ++ fmtMat s.dRdY.get ++ fmtMat s.dRdZ.get))
      | "smart.dRT", 6 =>
        let s := smartInit (vecOf a 0 3)
        let t := vecOf a 3 3
        let (tx, ty, tz) := trueDerivs (vecOf a 0 3)
        let c0 := mulVec3 tx.get t; let c1 := mulVec3 ty.get t; let c2 := mulVec3 tz.get t
        let tr : Mat 3 3 Float := fun i j => match j with | 0 => c0 i | 1 => c1 i | 2 => c2 i
        (st, unwords (fmtMat (dRTdAngles s t).get ++ fmtMat s.dRdX.get ++ fmtMat s.dRdY.get ++ fmtMat s.dRdZ.get ++ ["|"] ++
                      fmtMat (tab tr).get))
      | "pose.mulcov", 54 =>
        let lin := matOf a 0 3 3; let tr := vecOf a 9 3; let pos := vecOf a 12 3; let ori := vecOf a 15 3
        let cov := matOf a 18 6 6
        let (p, o, c, j) := poseMul (fun l => l) lin tr pos ori cov
        (st, unwords (fmtVec p.get ++ fmtVec o.get ++ ["|"] ++ fmtMat c.get ++ ["|"] ++ fmtMat j.get))
      | _, _ => (st, "bad-op")
  | _ => (st, "bad-op")

def main : IO Unit := Proto.run (none : St) step
