import RomeaModel.Proto
import RomeaModel.Rotation
import RomeaModel.Coordinates
open Romea Romea.Proto Romea.Rotation Romea.Coordinates

/-!
Driver for C10: angle normalisers, Euler angles / rotation / quaternion conversions, SmartRotation3D (R only),
rigid_transformation3, polar and spherical maps, at `Float` (tokens `d…`) and `Float32` (tokens `s…`).

The scalar type of an op is the type of its value tokens.  The single argument `@` stands for "the values the previous
op of this case printed" (same type), so that round trips can be chained: `eul.toR r p y`, `eul.fromR @`, `eul.toR @`.
Outputs: the values, space separated; `precond` when the normalisers' `assert` would fire; `bad-op` otherwise.
-/

inductive Res (α : Type) | vals (l : List α) | precond | bad

section
variable {α δ : Type} [Add α] [Sub α] [Mul α] [Div α] [Neg α] [LT α] [DecidableLT α] [NatCast α] [OfScientific α] [Trans α]
variable [Add δ] [Sub δ] [Mul δ] [Neg δ] [LT δ] [DecidableLT δ] [NatCast δ] [Trans δ] [DoubleConv α δ]

def m3l (m : Mat3 α) : List α := [m.m00, m.m01, m.m02, m.m10, m.m11, m.m12, m.m20, m.m21, m.m22]
def v3l (v : Vec3 α) : List α := [v.x, v.y, v.z]

/-- ops that exist for both scalar types -/
@[specialize] def evalOp (arch : QArch) (op : String) (a : List α) : Res α :=
  match op, a with
  | "ang.n02pi", [v] => if normaliserPre v then .vals [between0And2Pi v] else .precond
  | "ang.npipi", [v] => if normaliserPre v then .vals [betweenMinusPiAndPi v] else .precond
  | "rot2.to", [x] => let m := eulerAngleToRotation2D x; .vals [m.m00, m.m01, m.m10, m.m11]
  | "rot2.from", [m00, m01, m10, m11] => .vals [rotation2DToEulerAngle ⟨m00, m01, m10, m11⟩]
  | "eul.toR", [r, p, y] => .vals (m3l (eulerAnglesToRotation3D arch ⟨r, p, y⟩))
  | "eul.toQ", [r, p, y] => let q := eulerAnglesToQuaternion arch ⟨r, p, y⟩; .vals [q.w, q.x, q.y, q.z]
  | "eul.fromR", [a0, a1, a2, a3, a4, a5, a6, a7, a8] =>
      .vals (v3l (rotation3DToEulerAngles ⟨a0, a1, a2, a3, a4, a5, a6, a7, a8⟩))
  | "eul.fromQ", [w, x, y, z] => .vals (v3l (quaternionToEulerAngles ⟨w, x, y, z⟩))
  | "rt3", [tx, ty, tz, ax, ay, az] =>
      let (l, t) := rigidTransformation3 arch ⟨tx, ty, tz⟩ ⟨ax, ay, az⟩
      .vals [l.m00, l.m01, l.m02, t.x, l.m10, l.m11, l.m12, t.y, l.m20, l.m21, l.m22, t.z]
  | "pol.to", [x, y] => let p := toPolar x y; .vals [p.range, p.azimut]
  | "polh.to", [x, y] => let p := toPolar x y; .vals [p.range, p.azimut]
  | "pol.tos", [x, y] => .vals [polarRange x y, polarAzimut x y]
  | "pol.from", [r, az] => let c := polarToCartesian ⟨r, az⟩; .vals [c.1, c.2]
  | "polh.from", [r, az] => let c := polarToCartesian ⟨r, az⟩; .vals [c.1, c.2]
  | "sph.to", [x, y, z] => let s := toSpherical x y z; .vals [s.range, s.azimut, s.elevation]
  | "sphh.to", [x, y, z] => let s := toSpherical x y z; .vals [s.range, s.azimut, s.elevation]
  | "sph.tos", [x, y, z] => let s := toSpherical x y z; .vals [s.range, s.azimut, s.elevation]
  | "sph.from", [r, az, el] => let c := sphericalToCartesian ⟨r, az, el⟩; .vals [c.1, c.2.1, c.2.2]
  | "sphh.from", [r, az, el] => let c := sphericalToCartesian ⟨r, az, el⟩; .vals [c.1, c.2.1, c.2.2]
  | _, _ => .bad
end

inductive Last | none | d (l : List Float) | s (l : List Float32)

structure St where
  last : Last := .none
  smart : Option (Smart Float) := none

def outD (st : St) (r : Res Float) : St × String :=
  match r with
  | .vals l => ({ st with last := .d l }, unwords (l.map fmtF64))
  | .precond => ({ st with last := .none }, "precond")
  | .bad => ({ st with last := .none }, "bad-op")

def outS (st : St) (r : Res Float32) : St × String :=
  match r with
  | .vals l => ({ st with last := .s l }, unwords (l.map fmtF32))
  | .precond => ({ st with last := .none }, "precond")
  | .bad => ({ st with last := .none }, "bad-op")

/-- ops that exist for `double` only and/or carry state -/
def evalD (st : St) (op : String) (a : List Float) : St × String :=
  match op, a with
  | "ang.fmod", [v] => if normaliserPre v then outD st (.vals [fmod v m2pi]) else outD st .precond
  | "smart.ctor", [ax, ay, az] =>
      let s := Smart.ofAngles ax ay az
      outD { st with smart := some s } (.vals (m3l s.r))
  | "smart.init", [ax, ay, az] =>
      match st.smart with
      | some s0 => let s := Smart.init s0 ax ay az; outD { st with smart := some s } (.vals (m3l s.r))
      | none => outD st .bad
  | "smart.ctorv", [ax, ay, az] =>          -- SmartRotation3D(const Eigen::Vector3d &): SmartRotation3D.cpp delegates to init
      let s := Smart.ofAngles ax ay az
      outD { st with smart := some s } (.vals (m3l s.r))
  | "smart.initv", [ax, ay, az] =>          -- init(const Eigen::Vector3d &) = init(angles[0], angles[1], angles[2])
      match st.smart with
      | some s0 => let s := Smart.init s0 ax ay az; outD { st with smart := some s } (.vals (m3l s.r))
      | none => outD st .bad
  | _, _ => outD st (evalOp QArch.sseDouble op a)

def step (st : St) (toks : List String) : St × String :=
  match toks with
  | ["smart.new"] => ({ st with smart := some Smart.new, last := .none }, "ok")
  | ["smart.R"] =>
      match st.smart with
      | some s => outD st (.vals (m3l s.r))
      | none => ({ st with last := .none }, "bad-op")
  | [op, "@"] =>
      match st.last with
      | .d l => evalD st op l
      | .s l => outS st (evalOp QArch.sseFloat op l)
      | .none => (st, "bad-op")
  | op :: args =>
      if args.isEmpty then ({ st with last := .none }, "bad-op") else
      match parseAll? parseF64? args with
      | some l => evalD st op l
      | none =>
        match parseAll? parseF32? args with
        | some l => outS st (evalOp QArch.sseFloat op l)
        | none => ({ st with last := .none }, "bad-op")
  | [] => (st, "bad-op")

def main : IO Unit := Proto.run ({} : St) step
