import RomeaModel.Proto
import RomeaModel.GridMap
open Romea Romea.Proto Romea.GridMap

/-! Driver for C13: `GridIndexMapping<double|float, 2|3>` (any DIM ≥ 1 is accepted) at `Float` / `Float32`.

    map.new <f64|f32> <dim> lo_1..lo_dim hi_1..hi_dim r      interval constructor
    map.sym <f64|f32> <dim> range r                          symmetric maximal-range constructor
    map.newq / map.symq …                                     the same constructors, answering only `n N_1 … N_dim` (no centre is computed)
    map.describe                                              what map.new answers, on the current grid
        -> `n N_1..N_dim first c_1..c_dim last c_1..c_dim`   (cell counts, centres of the first / last cells)
    map.idx p_1..p_dim      -> `i_1 .. i_dim`                 computeCellIndexes
    map.centre k_1..k_dim   -> `c_1 .. c_dim`                 computeCellCenterPosition (bad-op outside the table)
    map.loc p_1..p_dim      -> `i_1 .. i_dim c_1 .. c_dim`    indexes, then the centre of that cell (`… oob` outside the table)
    map.fix k_1..k_dim      -> `c_1 .. c_dim i_1 .. i_dim`    centre of the cell, then the indexes the centre maps to
    map.scan axis           -> `dev <max_k |(c[k+1]-c[k]) - r|> fixbad <#k : idx(c[k]) ≠ k> cnt <table size>`
-/

structure Num (α : Type) where
  parse : String → Option α
  fmt : α → String
  abs : α → α
  lt : α → α → Bool
  zero : α

def num64 : Num Float := ⟨parseF64?, fmtF64, Float.abs, fun a b => a < b, 0.0⟩
def num32 : Num Float32 := ⟨parseF32?, fmtF32, Float32.abs, fun a b => a < b, 0.0⟩

section
variable {α : Type} [Add α] [Sub α] [Mul α] [Div α] [Neg α] [NatCast α] [OfScientific α] [Trans α] [Trunc α]

def describe (N : Num α) (g : Grid α) : String :=
  let firsts := g.map (fun a => match a.centre 0 with | some c => N.fmt c | none => "none")
  let lasts := g.map (fun a => match a.centre (a.n.toNat - 1) with | some c => N.fmt c | none => "none")
  unwords (["n"] ++ g.map (fun a => toString a.n) ++ ["first"] ++ firsts ++ ["last"] ++ lasts)

def cells (g : Grid α) : String :=
  unwords (["n"] ++ g.map (fun a => toString a.n))

def doNew (N : Num α) (args : List String) : Option (Grid α) := do
  match args with
  | d :: rest =>
    let d ← d.toNat?
    if d = 0 ∨ rest.length ≠ 2 * d + 1 then none else
    let v ← parseAll? N.parse rest
    let r ← v[2 * d]?
    pure (Grid.ofInterval (v.take d) ((v.drop d).take d) r)
  | _ => none

def doSym (N : Num α) (args : List String) : Option (Grid α) := do
  match args with
  | [d, m, r] =>
    let d ← d.toNat?
    if d = 0 then none else
    pure (Grid.ofRange d (← N.parse m) (← N.parse r))
  | _ => none

def doIdx (N : Num α) (g : Grid α) (args : List String) : Option String := do
  if args.length ≠ g.length then none else
  let p ← parseAll? N.parse args
  pure (unwords ((g.indexes p).map toString))

def doCentre (N : Num α) (g : Grid α) (args : List String) : Option String := do
  if args.length ≠ g.length then none else
  let k ← parseAll? parseNat? args
  let c ← g.centre k
  pure (unwords (c.map N.fmt))

def doLoc (N : Num α) (g : Grid α) (args : List String) : Option String := do
  if args.length ≠ g.length then none else
  let p ← parseAll? N.parse args
  let k := g.indexes p
  let ks := unwords (k.map toString)
  if k.any (· < 0) then pure (ks ++ " oob") else
  match g.centre (k.map Int.toNat) with
  | some c => pure (unwords (k.map toString ++ c.map N.fmt))
  | none => pure (ks ++ " oob")

def doFix (N : Num α) (g : Grid α) (args : List String) : Option String := do
  if args.length ≠ g.length then none else
  let k ← parseAll? parseNat? args
  let c ← g.centre k
  pure (unwords (c.map N.fmt ++ (g.indexes c).map toString))

def doScan (N : Num α) (g : Grid α) (args : List String) : Option String := do
  match args with
  | [ax] =>
    let a ← g[← ax.toNat?]?
    let c := a.centres
    let (dev, bad) := (List.range c.size).foldl (fun (acc : α × Nat) (k : Nat) =>
      match c[k]? with
      | none => acc
      | some ck =>
        let bad := if a.index ck == Int.ofNat k then acc.2 else acc.2 + 1
        match c[k + 1]? with
        | none => (acc.1, bad)
        | some cn =>
          let d := N.abs ((cn - ck) - a.res)
          (if N.lt acc.1 d then d else acc.1, bad)) (N.zero, 0)
    pure (unwords ["dev", N.fmt dev, "fixbad", toString bad, "cnt", toString c.size])
  | _ => none
end

structure St where
  g64 : Option (Grid Float) := none
  g32 : Option (Grid Float32) := none

def orBad (st : St) (o : Option String) : St × String :=
  match o with
  | some s => (st, s)
  | none => (st, "bad-op")

def step (st : St) (toks : List String) : St × String :=
  match toks with
  | "map.new" :: "f64" :: args =>
    match doNew num64 args with
    | some g => ({ g64 := some g, g32 := none }, describe num64 g)
    | none => (st, "bad-op")
  | "map.new" :: "f32" :: args =>
    match doNew num32 args with
    | some g => ({ g64 := none, g32 := some g }, describe num32 g)
    | none => (st, "bad-op")
  | "map.sym" :: "f64" :: args =>
    match doSym num64 args with
    | some g => ({ g64 := some g, g32 := none }, describe num64 g)
    | none => (st, "bad-op")
  | "map.sym" :: "f32" :: args =>
    match doSym num32 args with
    | some g => ({ g64 := none, g32 := some g }, describe num32 g)
    | none => (st, "bad-op")
  | "map.newq" :: "f64" :: args =>
    match doNew num64 args with
    | some g => ({ g64 := some g, g32 := none }, cells g)
    | none => (st, "bad-op")
  | "map.newq" :: "f32" :: args =>
    match doNew num32 args with
    | some g => ({ g64 := none, g32 := some g }, cells g)
    | none => (st, "bad-op")
  | "map.symq" :: "f64" :: args =>
    match doSym num64 args with
    | some g => ({ g64 := some g, g32 := none }, cells g)
    | none => (st, "bad-op")
  | "map.symq" :: "f32" :: args =>
    match doSym num32 args with
    | some g => ({ g64 := none, g32 := some g }, cells g)
    | none => (st, "bad-op")
  | ["map.describe"] =>
    match st.g64, st.g32 with
    | some g, _ => (st, describe num64 g)
    | _, some g => (st, describe num32 g)
    | _, _ => (st, "bad-op")
  | "map.idx" :: args =>
    match st.g64, st.g32 with
    | some g, _ => orBad st (doIdx num64 g args)
    | _, some g => orBad st (doIdx num32 g args)
    | _, _ => (st, "bad-op")
  | "map.centre" :: args =>
    match st.g64, st.g32 with
    | some g, _ => orBad st (doCentre num64 g args)
    | _, some g => orBad st (doCentre num32 g args)
    | _, _ => (st, "bad-op")
  | "map.loc" :: args =>
    match st.g64, st.g32 with
    | some g, _ => orBad st (doLoc num64 g args)
    | _, some g => orBad st (doLoc num32 g args)
    | _, _ => (st, "bad-op")
  | "map.fix" :: args =>
    match st.g64, st.g32 with
    | some g, _ => orBad st (doFix num64 g args)
    | _, some g => orBad st (doFix num32 g args)
    | _, _ => (st, "bad-op")
  | "map.scan" :: args =>
    match st.g64, st.g32 with
    | some g, _ => orBad st (doScan num64 g args)
    | _, some g => orBad st (doScan num32 g args)
    | _, _ => (st, "bad-op")
  | _ => (st, "bad-op")

def main : IO Unit := Proto.run ({} : St) step
