import RomeaModel.Proto
import RomeaModel.Geodesy
open Romea Romea.Proto Romea.Geodesy

/-! Driver for C01: ECEF ↔ geodetic conversion at `Float` (binary64).

    ecef.grs80                      → a b e2 e          (the static `EarthEllipsoid::GRS80`)
    ecef.ell  a b                   → e2 e              (constructor)
    ecef.fwd  a b lat lon h         → X Y Z
    ecef.inv  a b X Y Z             → lat lon h | diverged
    ecef.rt   a b lat lon h         → X Y Z lat' lon' h' | diverged           (fwd, then inv on its exact output)
    ecef.rti  a b X Y Z             → lat lon h X' Y' Z' | diverged           (inv, then fwd on its exact output)
    ecef.use  a b                   → ok                (ONE converter object that lives until the next `ecef.use` / end of case)
    ecef.pfwd / ecef.pinv / ecef.prt / ecef.prti  (arguments without `a b`)    the same four operations on that object: the model
                                    is a pure function of the ellipsoid, so a converter that remembers anything between calls disagrees
-/

/-- fuel of the latitude loop; the C++ side runs under a watchdog instead -/
def FUEL : Nat := 100000

def fmtVec (v : Vec3 Float) : String := unwords [fmtF64 v.x, fmtF64 v.y, fmtF64 v.z]
def fmtGeo (g : Geo Float) : String := unwords [fmtF64 g.lat, fmtF64 g.lon, fmtF64 g.alt]

def floats? (l : List String) : Option (List Float) := parseAll? parseF64? l

def step1 (_ : Unit) (toks : List String) : Unit × String :=
  match toks with
  | ["ecef.grs80"] =>
    let E : Ellipsoid Float := grs80
    ((), unwords [fmtF64 E.a, fmtF64 E.b, fmtF64 E.e2, fmtF64 E.e])
  | "ecef.ell" :: args =>
    match floats? args with
    | some [a, b] =>
      let E := Ellipsoid.make a b
      ((), unwords [fmtF64 E.e2, fmtF64 E.e])
    | _ => ((), "bad-op")
  | "ecef.fwd" :: args =>
    match floats? args with
    | some [a, b, lat, lon, h] => ((), fmtVec (toECEF (Ellipsoid.make a b) ⟨lat, lon, h⟩))
    | _ => ((), "bad-op")
  | "ecef.inv" :: args =>
    match floats? args with
    | some [a, b, x, y, z] =>
      match toWGS84 FUEL (Ellipsoid.make a b) ⟨x, y, z⟩ with
      | some g => ((), fmtGeo g)
      | none => ((), "diverged")
    | _ => ((), "bad-op")
  | "ecef.rt" :: args =>
    match floats? args with
    | some [a, b, lat, lon, h] =>
      let E := Ellipsoid.make a b
      let p := toECEF E ⟨lat, lon, h⟩
      match toWGS84 FUEL E p with
      | some g => ((), unwords [fmtVec p, fmtGeo g])
      | none => ((), "diverged")
    | _ => ((), "bad-op")
  | "ecef.rti" :: args =>
    match floats? args with
    | some [a, b, x, y, z] =>
      let E := Ellipsoid.make a b
      match toWGS84 FUEL E ⟨x, y, z⟩ with
      | some g => ((), unwords [fmtGeo g, fmtVec (toECEF E g)])
      | none => ((), "diverged")
    | _ => ((), "bad-op")
  | _ => ((), "bad-op")

/-- state = the ellipsoid of the persistent converter (`ecef.use`), if any -/
def step (st : Option (Float × Float)) (toks : List String) : Option (Float × Float) × String :=
  match toks with
  | ["ecef.use", a, b] =>
    match parseF64? a, parseF64? b with
    | some a, some b => (some (a, b), "ok")
    | _, _ => (st, "bad-op")
  | op :: args =>
    if op == "ecef.pfwd" || op == "ecef.pinv" || op == "ecef.prt" || op == "ecef.prti" then
      match st with
      | some (a, b) => (st, (step1 () (("ecef." ++ (op.drop 6).toString) :: fmtF64 a :: fmtF64 b :: args)).2)
      | none => (st, "bad-op")
    else (st, (step1 () toks).2)
  | [] => (st, "bad-op")

def main : IO Unit := Proto.run none step
