import RomeaModel.Proto
import RomeaModel.Geodesy
open Romea Romea.Proto Romea.Geodesy

/-! Driver for C01: ECEF ↔ geodetic conversion at `Float` (binary64).

    ecef.grs80                      → a b e2 e          (the static `EarthEllipsoid::GRS80`)
    ecef.ell  a b                   → e2 e              (constructor)
    ecef.fwd  a b lat lon h         → X Y Z
    ecef.inv  a b X Y Z             → lat lon h | diverged
    ecef.rt   a b lat lon h         → X Y Z lat' lon' h' | diverged           (fwd, then inv on its exact output)
    ecef.rti  a b X Y Z             → lat lon h X' Y' Z' | diverged           (inv, then fwd on its exact output)
-/

/-- fuel of the latitude loop; the C++ side runs under a watchdog instead -/
def FUEL : Nat := 100000

def fmtVec (v : Vec3 Float) : String := unwords [fmtF64 v.x, fmtF64 v.y, fmtF64 v.z]
def fmtGeo (g : Geo Float) : String := unwords [fmtF64 g.lat, fmtF64 g.lon, fmtF64 g.alt]

def floats? (l : List String) : Option (List Float) := parseAll? parseF64? l

def step (_ : Unit) (toks : List String) : Unit × String :=
  match toks with
  | ["ecef.grs80"] =>
    let E : Ellipsoid Float := grs80
    ((), unwords [fmtF64 E.a, fmtF64 E.b, fmtF64 E.e2, fmtF64 E.e])
  | "ecef.ell" :: args =>
    match floats? args with
    | some [a, b] =>
      let E := Ellipsoid.make a b
      ((), unwords [fmtF64 E.e2, fmtF64 E.e])
    | _ => ((), "bad-op")
  | "ecef.fwd" :: args =>
    match floats? args with
    | some [a, b, lat, lon, h] => ((), fmtVec (toECEF (Ellipsoid.make a b) ⟨lat, lon, h⟩))
    | _ => ((), "bad-op")
  | "ecef.inv" :: args =>
    match floats? args with
    | some [a, b, x, y, z] =>
      match toWGS84 FUEL (Ellipsoid.make a b) ⟨x, y, z⟩ with
      | some g => ((), fmtGeo g)
      | none => ((), "diverged")
    | _ => ((), "bad-op")
  | "ecef.rt" :: args =>
    match floats? args with
    | some [a, b, lat, lon, h] =>
      let E := Ellipsoid.make a b
      let p := toECEF E ⟨lat, lon, h⟩
      match toWGS84 FUEL E p with
      | some g => ((), unwords [fmtVec p, fmtGeo g])
      | none => ((), "diverged")
    | _ => ((), "bad-op")
  | "ecef.rti" :: args =>
    match floats? args with
    | some [a, b, x, y, z] =>
      let E := Ellipsoid.make a b
      match toWGS84 FUEL E ⟨x, y, z⟩ with
      | some g => ((), unwords [fmtGeo g, fmtVec (toECEF E g)])
      | none => ((), "diverged")
    | _ => ((), "bad-op")
  | _ => ((), "bad-op")

def main : IO Unit := Proto.run () step
